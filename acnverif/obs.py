"""Observation helpers: read state of acnportal objects without depending on more internals
than necessary, and patch the library's sources of randomness with generated values."""
import contextlib
import json

import numpy as np


def stored_charge(batt):
    """Stored energy [kWh] of a battery.  There is no public accessor; the attribute used by
    the bundled classes is read directly and, should it be renamed, the public JSON dump is
    searched instead."""
    try:
        return batt._current_charge
    except AttributeError:
        d = json.loads(batt.to_json())
        attrs = d["context_dict"][d["id"]]["attributes"]
        for k, v in attrs.items():
            if "current_charge" in k and "power" not in k and "charging" not in k:
                return v
        raise


def init_charge(batt):
    try:
        return batt._init_charge
    except AttributeError:
        d = json.loads(batt.to_json())
        attrs = d["context_dict"][d["id"]]["attributes"]
        for k, v in attrs.items():
            if "init_charge" in k:
                return v
        raise


class NoiseFeed:
    """Replacement for numpy.random.normal that hands out generated standard-normal draws
    (cyclically), so that the noise sequence is part of the shrinkable test input."""

    def __init__(self, zs):
        self.zs = list(zs) or [0.0]
        self.i = 0
        self.calls = 0

    def __call__(self, loc=0.0, scale=1.0, size=None):
        z = self.zs[self.i % len(self.zs)]
        self.i += 1
        self.calls += 1
        if size is not None:  # pragma: no cover - not used by acnportal's battery models
            return np.full(size, loc + scale * z)
        return loc + scale * z


@contextlib.contextmanager
def patched_normal(zs):
    feed = NoiseFeed(zs)
    orig = np.random.normal
    np.random.normal = feed
    try:
        yield feed
    finally:
        np.random.normal = orig
