"""Independent statement of the documented battery charging laws (noise off).

All functions take the stored charge [kWh] and return the charge after the period; power and
current follow as averages over the period.  Time is in hours, rates in 1/h of SoC.
"""
import math


def ideal_after(cap, charge, maxp, pilot, V, T_min):
    T = T_min / 60.0
    power = min(pilot * V / 1000.0, maxp, (cap - charge) / T)
    return charge + power * T, power


def two_stage_after(cap, charge, maxp, tsoc, pilot, V, T_min):
    """Solution of ds/dt = min(r, m (1-s)/(1-tsoc)) over T, r = min(pilot power, max)/cap."""
    if pilot == 0:
        return charge, 0.0
    T = T_min / 60.0
    m = maxp / cap
    r = min(pilot * V / 1000.0 / cap, m)
    s0 = charge / cap
    s_star = 1.0 - (1.0 - tsoc) * r / m  # where the declining maximum meets the pilot rate
    k = m / (1.0 - tsoc)
    if s0 < s_star:
        t1 = (s_star - s0) / r
        if T <= t1:
            s = s0 + r * T
        else:
            s = 1.0 - (1.0 - s_star) * math.exp(-k * (T - t1))
    else:
        s = 1.0 - (1.0 - s0) * math.exp(-k * T)
    new = s * cap
    return new, (new - charge) / T


def two_stage_rk4(cap, charge, maxp, tsoc, pilot, V, T_min, n=2000):
    """Numerical integration of the same law (used to cross-check the closed form)."""
    if pilot == 0:
        return charge
    T = T_min / 60.0
    m = maxp / cap
    r = min(pilot * V / 1000.0 / cap, m)

    def f(s):
        return max(0.0, min(r, m * (1.0 - s) / (1.0 - tsoc)))

    s = charge / cap
    h = T / n
    for _ in range(n):
        k1 = f(s)
        k2 = f(s + h * k1 / 2)
        k3 = f(s + h * k2 / 2)
        k4 = f(s + h * k3)
        s += h * (k1 + 2 * k2 + 2 * k3 + k4) / 6
    return s * cap


def stepwise_after(cap, charge, maxp, tsoc, pilot, V, T_min):
    """The documented legacy per-step approximation (noise off)."""
    T = T_min / 60.0
    to_full = (cap - charge) / T
    soc = charge / cap
    if soc < tsoc:
        power = min(pilot * V / 1000.0, maxp, to_full)
    else:
        power = min(pilot * V / 1000.0, (1 - soc) / (1 - tsoc) * maxp, to_full)
    return charge + power * T, power
