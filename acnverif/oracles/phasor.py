"""Exact-as-possible statement of the feasibility definition.

margin[j][t] = limit_j + max(atol, rtol*limit_j) - | sum_i a_ji * s_it * e^{j phi_i} |

computed with math.fsum on the real and imaginary parts.  A guard band
g = GUARD_REL * (1 + limit) separates "must accept" (margin > g) from "must reject"
(margin < -g); inside the band nothing is asserted (the three implementations legitimately
differ by ~1e-13 there) and the case is counted as ambiguous.
"""
import math

GUARD_REL = 1e-10


def tolerance(limit, atol, rtol):
    return max(atol, rtol * limit)


def aggregate(coeffs, phases_deg, column):
    """|sum a_i s_i e^{j phi_i}| for one constraint row and one schedule column (lists)."""
    re = math.fsum(a * s * math.cos(math.radians(p)) for a, s, p in zip(coeffs, column, phases_deg) if a != 0)
    im = math.fsum(a * s * math.sin(math.radians(p)) for a, s, p in zip(coeffs, column, phases_deg) if a != 0)
    return math.hypot(re, im)


def aggregate_linear(coeffs, column):
    return math.fsum(abs(a) * s for a, s in zip(coeffs, column))


def margins(rows, limits, phases_deg, schedule, atol, rtol, linear=False):
    """rows: list of coefficient lists (station order); schedule: list of columns?  No:
    schedule[i][t] (station-major).  Returns list of (j, t, margin, guard)."""
    out = []
    n_t = len(schedule[0]) if schedule else 0
    for j, (row, limit) in enumerate(zip(rows, limits)):
        tol = tolerance(limit, atol, rtol)
        g = GUARD_REL * (1 + abs(limit))
        for t in range(n_t):
            col = [schedule[i][t] for i in range(len(row))]
            agg = aggregate_linear(row, col) if linear else aggregate(row, phases_deg, col)
            out.append((j, t, limit + tol - agg, g))
    return out


def verdict(rows, limits, phases_deg, schedule, atol, rtol, linear=False):
    """-> (True | False | None, min_margin_over_guard_info).  None = ambiguous."""
    ms = margins(rows, limits, phases_deg, schedule, atol, rtol, linear)
    if not ms:
        return True, None
    worst = min(ms, key=lambda x: x[2])
    if any(m < -g for _, _, m, g in ms):
        return False, worst
    if all(m > g for _, _, m, g in ms):
        return True, worst
    return None, worst
