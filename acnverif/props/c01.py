"""C01 - every session is plugged in and unplugged exactly once; run() terminates."""
import numpy as np

from .. import scenario as sc
from ..runner import Given, require

ID = "C01"
RULE = (
    "Hypothesis generates whole scenarios: 1-6 stations of every EVSE class registered in "
    "non-lexicographic order, 0-4 constraints, 0-3 non-overlapping sessions per station with "
    "back-to-back reuse (arrival = previous departure) and many simultaneous events, 0-3 extra "
    "recompute events (also after the last departure), period in {1,2.5,5,15,60}, max_recompute in "
    "{None,1,2,3,7}, schedulers scripted (incl. empty schedules, pilots for vacant stations, "
    "multi-period schedules) / always-max / uncontrolled / greedy / round-robin, events inserted in "
    "shuffled order. Oracle: an independent replay of the run loop (acnverif.scenario.Model): final "
    "iteration = last event time + 1, queue empty, all stations vacant; event_history = exactly one "
    "plug-in and one unplug per session plus the generated recomputes, in non-decreasing "
    "(time, unplug<plug-in<recompute) order with the oracle's own rank table, each handled in the "
    "period of its timestamp (observed as len(event_history) at every scheduler call); the "
    "occupant of every station in EVERY period (snapshot where the period's pilots are applied, ChargingNetwork.update_pilots) "
    "equals the session with arrival <= t < departure; non-zero recorded rates only inside "
    "connection intervals, and in the always-max family with oversized batteries non-zero in "
    "every connected period. A step bound of last+1 periods turns non-termination into a "
    "violation. The same scenario is also run on a simulator dumped to JSON and loaded before its "
    "first period (end state, events, order, identical rates), and the EventQueue object may have "
    "been queried for a late period before it was filled. Second use: after run() returned, the same "
    "sessions shifted behind the end are added to the queue and run() is called again - the result "
    "must equal one run over both batches; in a quarter of the scenarios the vacated network object serves a second simulation (fresh EVs, queue, scheduler) that must repeat the first. Non-trivial = two sessions share a "
    "station or two events share a period."
)
ASSUMPTIONS = [
    "continuous EVSEs have min_rate 0 (a station that rejects the 0 A pilot cannot idle)",
    "scripted pilots are drawn from each station's allowable set",
]

RANK = {"Unplug": 0, "Plugin": 1, "Recompute": 2, "": 3}


def make_observer(calls):
    def observer(algo, active):
        iface = algo.interface
        sim = iface._simulator
        calls.append(
            {
                "t": iface.current_time,
                "n_hist": len(sim.event_history),
                "occ": {sid: (sim.network.get_ev(sid).session_id if sim.network.get_ev(sid) is not None else None) for sid in sim.network.station_ids},
            }
        )

    return observer


def prop(spec, rec):
    m = sc.Model(spec)
    calls = []
    h = sc.build_sim(spec, observer=make_observer(calls), net_cls=sc.TraceNetwork)
    h.net.step_bound = m.end  # exact: one more simulated period than that is non-termination
    try:
        sc.run_sim(h)
    except sc.NonTermination as e:
        require(False, "terminates", "run() did not stop after the period of the last event (%s)" % e)
    sim, net = h.sim, h.net
    ctx = lambda: "iteration=%r model_end=%r history=%r" % (sim.iteration, m.end, [sc.event_key(e) for e in sim.event_history])  # noqa: E731

    # (1) end state
    require(sim.event_queue.empty(), "queue_empty_after_run", ctx)
    require(sim.iteration == m.end, "ends_one_period_after_last_event", ctx)
    for sid in m.station_ids:
        require(net.get_ev(sid) is None, "all_stations_vacated", lambda: "station %s still holds %r" % (sid, net.get_ev(sid).session_id))

    # (2) exactly the expected events, each once
    got = sorted((e.event_type, e.timestamp, e.ev.session_id if hasattr(e, "ev") else None) for e in sim.event_history)
    want = sorted((e[2], e[0], e[3]) for e in m.events)
    require(got == want, "each_event_exactly_once", lambda: "processed %r, expected %r" % (got, want))
    require(sorted(sim.ev_history) == sorted(m.sessions), "ev_history_complete", lambda: "ev_history keys %r" % sorted(sim.ev_history))
    for sid, ev in sim.ev_history.items():
        require(ev is h.evs[sid], "ev_history_identity", "ev_history[%s] is not the session's EV object" % sid)

    # (3) order: time first, then departures < arrivals < recomputes (own rank table)
    keys = [(e.timestamp, RANK[e.event_type]) for e in sim.event_history]
    require(keys == sorted(keys), "event_order", lambda: "event_history keys %r" % keys)
    # every event forces a scheduler call in its period, at which it must already be processed
    call_ts = [c["t"] for c in calls]
    require(len(set(call_ts)) == len(call_ts), "at_most_one_call_per_period", lambda: "calls at %r" % call_ts)
    for t in sorted(m.event_times):
        require(t in call_ts, "event_period_has_call", lambda: "no scheduler call in event period %d (calls %r)" % (t, call_ts))
    for c in calls:
        n = len(m.events_up_to(c["t"]))
        require(c["n_hist"] == n, "event_handled_in_its_period", lambda: "at period %d the history holds %d events, model %d" % (c["t"], c["n_hist"], n))
        for sid in m.station_ids:
            require(c["occ"][sid] == m.occupant(sid, c["t"]), "occupant_at_call", lambda: "period %d station %s holds %r, model %r" % (c["t"], sid, c["occ"][sid], m.occupant(sid, c["t"])))

    # (4) connection intervals in every period (observed where the period's pilots are applied)
    require(net.updates == m.end and sorted(net.trace) == list(range(m.end)), "one_charging_update_per_period", lambda: "charging updates for periods %r, simulation has periods 0..%d" % (sorted(net.trace), m.end - 1))
    for t in range(m.end):
        occ = net.trace[t]
        for sid in m.station_ids:
            require(occ[sid] == m.occupant(sid, t), "connected_exactly_arrival_to_departure", lambda: "period %d station %s holds %r, model %r" % (t, sid, occ[sid], m.occupant(sid, t)))

    # (5) current only while connected (and, in the exact family, whenever connected)
    R = sim.charging_rates
    require(R.shape[0] == len(m.station_ids) and R.shape[1] >= m.end, "rate_matrix_shape", lambda: "shape %r" % (R.shape,))
    exact = bool(spec["scheduler"].get("always_max"))
    charged = False
    for i, sid in enumerate(m.station_ids):
        for t in range(R.shape[1]):
            conn = t < m.end and m.occupant(sid, t) is not None
            if R[i, t] != 0:
                charged = True
                require(conn, "current_only_while_connected", lambda: "station %s has rate %r in period %d with no EV connected" % (sid, R[i, t], t))
            elif conn and exact:
                require(False, "current_whenever_connected", lambda: "always-max family: station %s connected in period %d but rate is 0" % (sid, t))

    labels = sc.scenario_labels(spec)
    # the same scenario on a simulator that went through a JSON dump / load before its first period
    if spec.get("also_json", True):
        check_json_built(spec, m, R, labels)
    if spec.get("second_batch"):
        check_second_run(spec, m, labels)
    if spec.get("reuse_network"):
        check_network_reused(spec, h, m, labels)
    if spec.get("queue_preused"):
        labels.add("queue_object_used_before")
    if exact:
        labels.add("exact_family")
    if charged:
        labels.add("charged")
    nt = bool(labels & {"two_sessions_one_station", "simultaneous_events"})
    rec.case(spec, labels, nt)


def check_second_run(spec, m, labels):
    """Second use of the same simulator: after run() returned, a second batch of sessions (the
    same sessions shifted behind the end of the first batch) is added to its queue and run() is
    called again.  The outcome must be that of ONE run over both batches."""
    import copy

    off = m.end + spec["second_batch"] - 1  # first period of the second batch
    batch2 = []
    for x in spec["sessions"]:
        y = copy.deepcopy(x)
        y["id"] = x["id"] + "-again"
        y["arrival"] += off
        y["departure"] += off
        if y.get("est_departure") is not None:
            y["est_departure"] += off
        batch2.append(y)
    both = dict(spec, sessions=spec["sessions"] + batch2, recomputes=list(spec.get("recomputes", [])), event_order=[], second_batch=None, queue_preused=None)
    one = sc.build_sim(both)
    sc.run_sim(one)
    two = sc.build_sim(dict(spec, queue_preused=None))
    sc.run_sim(two)
    from acnportal.acnsim import PluginEvent

    evs2 = {y["id"]: sc.build_ev(y) for y in batch2}
    two.sim.event_queue.add_events([PluginEvent(ev.arrival, ev) for ev in evs2.values()])
    two.evs.update(evs2)
    sc.run_sim(two)
    W = one.sim.iteration
    require(two.sim.iteration == W and two.sim.event_queue.empty(), "second_run_ends", lambda: "second run() ended at iteration %r, one run over both batches at %r" % (two.sim.iteration, W))
    for name in ("pilot_signals", "charging_rates"):
        a, b = getattr(one.sim, name)[:, :W], getattr(two.sim, name)[:, :W]
        require(a.shape == b.shape and np.array_equal(a, b), "second_run_differs_from_single_run", lambda: "%s of (run, add events, run) differ from one run over all events:\n%r\n%r" % (name, b, a))
    e1 = {k: ev.energy_delivered for k, ev in one.evs.items()}
    e2 = {k: ev.energy_delivered for k, ev in two.evs.items()}
    require(e1 == e2, "second_run_energies", lambda: "energies %r vs %r" % (e2, e1))
    k1 = sorted(sc.event_key(e) for e in one.sim.event_history)
    k2 = sorted(sc.event_key(e) for e in two.sim.event_history)
    require(k1 == k2, "second_run_events", lambda: "events %r vs %r" % (k2, k1))
    labels.add("second_run_on_same_simulator")


def check_network_reused(spec, h, m, labels):
    """The site (one ChargingNetwork object, now vacated) serves a second simulation of the same
    sessions with fresh EV objects, queue, scheduler and simulator: same result as the first."""
    from acnportal.acnsim import Simulator

    net = h.net
    net.updates, net.trace, net.pilot_trace = 0, {}, {}
    evs = {s["id"]: sc.build_ev(s) for s in spec["sessions"]}
    q = sc.build_events(dict(spec, queue_preused=None), evs)
    sched = sc.make_scheduler(spec)
    sim2 = Simulator(net, sched, q, sc.parse_start(spec), period=spec["period"], store_schedule_history=bool(spec.get("store_history")), verbose=False)
    h2 = sc.Handle(spec, sim2, net, evs, sched)
    h2.evses = h.evses
    sc.run_sim(h2)
    require(sim2.iteration == m.end and sim2.event_queue.empty(), "network_reused_run_ends", lambda: "second simulation on the same network: iteration %r, model end %r" % (sim2.iteration, m.end))
    for name in ("pilot_signals", "charging_rates"):
        a, b = getattr(h.sim, name), getattr(sim2, name)
        require(a.shape == b.shape and np.array_equal(a, b), "network_reused_differs", lambda: "%s of a second simulation on the same (vacated) network object differ from the first:\n%r\n%r" % (name, b, a))
    for t in range(m.end):
        for sid in m.station_ids:
            require(net.trace[t][sid] == m.occupant(sid, t), "network_reused_occupancy", lambda: "second simulation: period %d station %s holds %r" % (t, sid, net.trace[t][sid]))
    labels.add("network_object_reused")


def check_json_built(spec, m, R, labels):
    import warnings

    from acnportal.acnsim import Simulator

    fresh = sc.build_sim(spec)
    with warnings.catch_warnings():
        warnings.simplefilter("ignore")
        sim = Simulator.from_json(fresh.sim.to_json())
    sched = sc.make_scheduler(spec)
    sim.update_scheduler(sched)
    h = sc.Handle(spec, sim, sim.network, {}, sched)
    sc.run_sim(h)
    require(sim.event_queue.empty() and sim.iteration == m.end, "json_built_run_ends", lambda: "loaded simulator: iteration %r, model end %r" % (sim.iteration, m.end))
    ids = list(sim.network.station_ids)
    require(ids == m.station_ids, "json_built_station_order", lambda: "loaded simulator stations %r, registered %r" % (ids, m.station_ids))
    for sid in ids:
        require(sim.network.get_ev(sid) is None, "json_built_stations_vacated", lambda: "loaded simulator: station %s still occupied" % sid)
    got = sorted((e.event_type, e.timestamp, e.ev.session_id if hasattr(e, "ev") else None) for e in sim.event_history)
    want = sorted((e[2], e[0], e[3]) for e in m.events)
    require(got == want, "json_built_each_event_exactly_once", lambda: "loaded simulator processed %r, expected %r" % (got, want))
    keys = [(e.timestamp, RANK[e.event_type]) for e in sim.event_history]
    require(keys == sorted(keys), "json_built_event_order", lambda: "loaded simulator event keys %r" % keys)
    R2 = sim.charging_rates
    require(R2.shape == R.shape and np.array_equal(R2, R), "json_built_rates_differ", lambda: "charging rates of the simulator built through JSON differ from the directly built one:\n%r\n%r" % (R2, R))
    labels.add("json_built_run")


from hypothesis import strategies as st  # noqa: E402


@st.composite
def cases(draw):
    spec = draw(sc.scenarios())
    # a quarter of the scenarios are also continued with a second batch of events
    if spec["scheduler"]["kind"] in ("scripted", "uncontrolled") and not spec["scheduler"].get("always_max"):
        spec["second_batch"] = draw(st.sampled_from([None, None, None, 1, 3]))
    spec["reuse_network"] = draw(st.integers(0, 3)) == 0
    return spec


def subchecks(tier):
    return [
        Given(
            "run_loop",
            cases(),
            prop,
            quick=500,
            thorough=40000,
            floors={"second_run_on_same_simulator": 0.08, "json_built_run": 0.45, "back_to_back": 0.2, "simultaneous_different_types": 0.3, "exact_family": 0.04, "network_object_reused": 0.1, "recompute_after_last_departure": 0.05, "mr_None": 0.1},
        )
    ]


def replay(subcheck, spec, rec):
    return prop(spec, rec)
