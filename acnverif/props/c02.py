"""C02 - energy ledger: recorded rates, EV energy and battery charge agree."""
import json
import math

import numpy as np
from hypothesis import strategies as st

import acnportal.acnsim as acnsim

from .. import scenario as sc
from ..runner import Given, require

ID = "C02"
RULE = (
    "Hypothesis generates whole simulations (scenario generator of C01: all EVSE classes, "
    "heterogeneous voltages, fractional periods, ideal / two-stage continuous / two-stage stepwise "
    "batteries with and without noise - the noise draws are generated - small capacities so that "
    "batteries fill, scripted schedules that also address vacant stations, uncontrolled and "
    "sorted schedulers). Oracle, per session: EV.energy_delivered = sum over its connected "
    "periods of charging_rates[station,t]*V/1000*period/60 = battery charge gained (read from a "
    "fresh public to_json() dump of the EV), 1e-9 relative; recorded rate exactly 0 wherever the "
    "reference model says no EV is connected; sim.peak = max(0, max_t sum_s rates) (1e-9); "
    "total_energy_delivered = sum_t aggregate_power[t]*period/60 and aggregate_current = column "
    "sums. Sub-check ledger_stochastic repeats the ledger on StochasticNetwork histories (run-time "
    "station assignment, waiting queue, early departure of satisfied EVs; generator of C19), the "
    "connection intervals being read from the occupancy recorded where the pilots are applied. "
    "Sub-check ledger_replug follows ONE EV object through several uses (charge, unplug, "
    "EV.reset(), plug in elsewhere, leading 0 A pilots); in half of the simulations the scheduler "
    "charges the EV copies it can obtain (what-if probing), which must not reach the real batteries. "
    "In a third of the simulations the run is interrupted at a generated scheduler call, another scheduler object is installed with update_scheduler and the run continued; ledger and peak must hold for the whole recorded trajectory. Battery initial charges include values 1e-4 .. 2e-3 kWh below capacity. "
    "Non-trivial = some session received energy in >= 2 periods and a non-zero pilot was "
    "applied to a vacant station."
)
ASSUMPTIONS = [
    "tolerance 1e-9 relative + 1e-12 absolute on energies (sums of at most ~30 float terms)",
    "battery state is read from the EV's JSON dump (keys *_current_charge / *_init_charge)",
]


def battery_state(ev):
    """(init_charge, current_charge) of an EV's battery through the public JSON dump."""
    d = json.loads(ev.to_json())
    ctx = d["context_dict"]
    attrs = ctx[d["id"]]["attributes"]
    batt = ctx[attrs["_battery"]]["attributes"]
    return batt["_init_charge"], batt["_current_charge"]


def close(a, b, rel=1e-9, ab=1e-12):
    return abs(a - b) <= ab + rel * max(abs(a), abs(b))


def probe_copies(algo, active, out):
    """A scheduler asking "what if" on the EV copies it can obtain: it charges them, which must
    not touch the real EVs or their batteries."""
    import warnings

    with warnings.catch_warnings():
        warnings.simplefilter("ignore")
        for ev in algo.interface.active_evs:
            ev.charge(16.0, 208.0, algo.interface.period)
            ev.charge(16.0, 208.0, algo.interface.period)


def prop(spec, rec):
    m = sc.Model(spec)
    swap = spec.get("swap_scheduler_at")
    h = sc.build_sim(spec, crash_at=swap)
    if spec.get("probing_scheduler"):
        h.scheduler.post = probe_copies
    if swap is None:
        sc.run_sim(h)
    else:
        # the run is interrupted at a scheduler call, the operator installs another scheduler
        # object (update_scheduler) and continues: the ledger and the peak speak about the whole
        # recorded trajectory, whoever scheduled it
        try:
            sc.run_sim(h)
        except sc.Crash:
            pass
        sched2 = sc.make_scheduler(spec)
        if spec.get("probing_scheduler"):
            sched2.post = probe_copies
        if spec.get("swap_via_json"):
            # ... and the run is continued on a simulator restored from a checkpoint: the ledger is
            # then read from the restored objects (sessions as the restored simulator reports them)
            import warnings

            from acnportal.acnsim import Simulator

            with warnings.catch_warnings():
                warnings.simplefilter("ignore")
                restored, _ = sc.json_roundtrip(h.sim, Simulator, spec.get("swap_via_json"))
            feed = h.feed
            restored.update_scheduler(sched2)
            h = sc.Handle(spec, restored, restored.network, restored.ev_history, sched2)
            h.feed = feed
            sc.run_sim(h)
            # sessions that had not arrived at the checkpoint are reported once they have
            require(sorted(restored.ev_history) == sorted(m.sessions), "restored_run_reports_every_session", lambda: "sessions reported after a restored run: %r" % sorted(restored.ev_history))
            h.evs = dict(restored.ev_history)
        else:
            h.sim.update_scheduler(sched2)
            h.scheduler = sched2
            sc.run_sim(h)
        require(h.sim.iteration == m.end and h.sim.event_queue.empty(), "run_completes_after_scheduler_swap", lambda: "iteration %r, model end %r" % (h.sim.iteration, m.end))
    sim = h.sim
    labels = sc.scenario_labels(spec)
    if spec.get("scribble_results"):
        # the caller has post-processed the exported tables in place before looking at the books:
        # the simulator's own record is not his to change that way
        sc.scribble_on_results(sim)
        labels.add("exported_result_tables_edited_in_place")
    R, P = sim.charging_rates, sim.pilot_signals
    period = spec["period"]
    multi = False
    for sid, s in m.sessions.items():
        ev = h.evs[sid]
        i = m.station_ids.index(s["station"])
        V = spec["stations"][i]["voltage"]
        ledger = math.fsum(float(R[i, t]) * V / 1000.0 * (period / 60.0) for t in range(s["arrival"], s["departure"]))
        require(close(ev.energy_delivered, ledger), "ev_energy_equals_recorded_rates", lambda: "session %s: EV reports %r kWh, recorded rates integrate to %r kWh" % (sid, ev.energy_delivered, ledger))
        init, cur = battery_state(ev)
        require(close(cur - init, ev.energy_delivered, ab=1e-11 * max(1.0, s["battery"]["cap"])), "battery_gain_equals_ev_energy", lambda: "session %s: battery gained %r kWh, EV reports %r kWh" % (sid, cur - init, ev.energy_delivered))
        if sum(1 for t in range(s["arrival"], s["departure"]) if R[i, t] > 0) >= 2:
            multi = True
        if s["battery"]["model"] != "ideal" and s["battery"].get("noise", 0) > 0 and ev.energy_delivered > 0:
            labels.add("noisy_battery_charged")
        if cur >= s["battery"]["cap"] * (1 - 1e-9):
            labels.add("battery_filled")
    vacant_pilot = False
    for i, sid in enumerate(m.station_ids):
        for t in range(R.shape[1]):
            if t >= m.end or m.occupant(sid, t) is None:
                require(R[i, t] == 0, "rate_zero_when_vacant", lambda: "station %s period %d vacant but recorded rate %r" % (sid, t, R[i, t]))
                if t < m.end and t < P.shape[1] and P[i, t] > 0:
                    vacant_pilot = True
    agg = R.sum(axis=0)
    want_peak = max(0.0, float(agg.max())) if agg.size else 0.0
    require(close(sim.peak, want_peak, ab=1e-9), "peak_is_max_aggregate_current", lambda: "peak %r, max aggregate %r" % (sim.peak, want_peak))
    df = sim.charging_rates_as_df()
    require(list(df.columns) == m.station_ids and np.array_equal(df.to_numpy().T, R), "charging_rates_as_df", lambda: "charging_rates_as_df (columns %r) differs from charging_rates" % list(df.columns))
    for i, sid in enumerate(m.station_ids):
        require(sim.index_of_evse(sid) == i, "index_of_evse", lambda: "index_of_evse(%r) = %r, row %d" % (sid, sim.index_of_evse(sid), i))
    ac = acnsim.aggregate_current(sim)
    require(np.allclose(ac, agg, rtol=1e-12, atol=1e-12), "aggregate_current", "aggregate_current differs from column sums")
    ap = acnsim.aggregate_power(sim)
    Vs = [s["voltage"] for s in spec["stations"]]
    want_ap = [math.fsum(Vs[i] * float(R[i, t]) for i in range(len(Vs))) / 1000.0 for t in range(R.shape[1])]
    require(np.allclose(ap, want_ap, rtol=1e-10, atol=1e-12), "aggregate_power", lambda: "aggregate_power %r, expected %r" % (list(ap), want_ap))
    total = acnsim.total_energy_delivered(sim)
    integral = math.fsum(want_ap) * (period / 60.0)
    require(close(total, integral, ab=1e-10), "total_energy_equals_power_integral", lambda: "total_energy_delivered %r kWh, integral of aggregate power %r kWh" % (total, integral))
    require(close(total, math.fsum(ev.energy_delivered for ev in h.evs.values()), ab=1e-10), "total_energy_is_sum_over_sessions", "total differs from the sum over sessions")
    if spec.get("probing_scheduler"):
        labels.add("scheduler_charges_its_ev_copies")
    if swap is not None and spec.get("swap_via_json"):
        labels.add("continued_from_a_json_checkpoint")
    if swap is not None:
        labels.add("scheduler_swapped_mid_run")
        if swap >= 1 and float(agg[:swap].max()) > float(agg[swap:].max() if agg[swap:].size else 0.0):
            labels.add("peak_before_swap")
    if spec.get("pilots_a_hair_below_zero"):
        labels.add("pilots_a_hair_below_zero")
        if (R < 0).any():
            labels.add("negative_rate_recorded")
    if multi:
        labels.add("multi_period_charging")
    if vacant_pilot:
        labels.add("pilot_on_vacant_station")
    rec.case(spec, labels, multi and vacant_pilot)


def prop_stochastic(spec, rec):
    """The ledger on a StochasticNetwork (stations assigned at run time, early departure of
    satisfied EVs): who is connected where is read from the occupancy recorded when each
    period's pilots are applied."""
    from . import c19

    picker = c19.Picker(spec["choices"])
    net, sim, evs = c19.build(spec)
    c19.run(sim, picker)
    ids = spec["stations"]
    R = np.array(sim.charging_rates, dtype=float)
    period = spec["period"]
    got = {sid: 0.0 for sid in evs}
    terms = {sid: [] for sid in evs}
    moved = False
    for t in range(sim.iteration):
        require(t in net.before, "no_charging_update_in_period", lambda: "period %d: pilots were never applied" % t)
        occ = net.before[t][0]
        for i, stn in enumerate(ids):
            who = occ[stn]
            if who is None:
                require(R[i, t] == 0, "rate_zero_when_vacant", lambda: "station %s period %d vacant but recorded rate %r" % (stn, t, R[i, t]))
            else:
                terms[who].append(float(R[i, t]) * c19.V / 1000.0 * (period / 60.0))
        if t in net.after and net.after[t][0] != occ:
            moved = True
    labels = {"stochastic", "early_on" if spec["early"] else "early_off"}
    charged = 0
    for sid, ev in evs.items():
        ledger = math.fsum(terms[sid])
        require(close(ev.energy_delivered, ledger), "ev_energy_equals_recorded_rates", lambda: "session %s: EV reports %r kWh, the rates recorded while it was connected integrate to %r kWh" % (sid, ev.energy_delivered, ledger))
        init, cur = battery_state(ev)
        require(close(cur - init, ev.energy_delivered, ab=1e-8), "battery_gain_equals_ev_energy", lambda: "session %s: battery gained %r kWh, EV reports %r kWh" % (sid, cur - init, ev.energy_delivered))
        charged += ev.energy_delivered > 0
    agg = R.sum(axis=0)
    require(close(sim.peak, max(0.0, float(agg.max())) if agg.size else 0.0, ab=1e-9), "peak_is_max_aggregate_current", lambda: "peak %r, max aggregate %r" % (sim.peak, agg.max()))
    total = acnsim.total_energy_delivered(sim)
    integral = float(np.sum(acnsim.aggregate_power(sim))) * (period / 60.0)
    require(close(total, integral, ab=1e-9), "total_energy_equals_power_integral", lambda: "total_energy_delivered %r kWh, integral of aggregate power %r kWh" % (total, integral))
    if moved:
        labels.add("early_departure_swap")
    if net.swaps:
        labels.add("queue_admission")
    rec.case(spec, labels, bool(net.swaps) and charged >= 2)


def subchecks(tier):
    return [
        Given(
            "ledger",
            ledger_cases(),
            prop,
            quick=400,
            thorough=30000,
            floors={"multi_period_charging": 0.236, "pilot_on_vacant_station": 0.164, "noisy_battery_charged": 0.1, "battery_filled": 0.077, "mixed_voltage": 0.3, "fractional_period": 0.05, "scheduler_swapped_mid_run": 0.15, "peak_before_swap": 0.03, "continued_from_a_json_checkpoint": 0.05, "negative_rate_recorded": 0.025},
            min_nontrivial=20,
        ),
        Given("ledger_replug", replug_cases(), prop_replug, quick=800, thorough=60000, floors={"ev_object_used_again": 0.185, "reset_between_sessions": 0.185}, jobs_quick=2),
        Given("ledger_stochastic", stochastic_cases(), prop_stochastic, quick=200, thorough=15000, floors={"early_departure_swap": 0.088, "queue_admission": 0.259}),
    ]


@st.composite
def ledger_cases(draw):
    spec = draw(sc.scenarios())
    spec["probing_scheduler"] = draw(st.booleans())
    spec["scribble_results"] = draw(st.integers(0, 2)) == 0
    if draw(st.integers(0, 2)) == 0:
        spec["swap_scheduler_at"] = draw(st.sampled_from(sc.Model(spec).invocations))
        spec["swap_via_json"] = draw(st.sampled_from([None, None, "string", "path", "buffer"]))
    if spec["scheduler"]["kind"] == "scripted" and not spec["scheduler"].get("always_max") and draw(st.integers(0, 3)) == 0:
        # "stop" pilots that come out of a scheduler's arithmetic a hair below zero: every EVSE class
        # accepts values within 1e-3 A of 0 A, and whatever the battery then reports is what must be
        # booked (rates, EV energy and battery charge move together, here by a few 1e-5 kWh downwards).
        # Ideal batteries only: the two-stage model warns that it is not meant for negative pilots.
        hit = False
        for e in spec["scheduler"]["table"]:
            for sid, vals in e.get("rows", {}).items():
                for k, v in enumerate(vals):
                    # 0 A is allowable on every station of a simulation
                    if draw(st.integers(0, 2 if v == 0 else 4)) == 0:
                        vals[k] = draw(st.sampled_from([-9e-4, -5e-4, -1e-6]))
                        hit = True
            if e.get("vtype") == "int":
                e["vtype"] = "float"
        if hit:
            for x in spec["sessions"]:
                x["battery"] = {"model": "ideal", "cap": x["battery"]["cap"], "init": x["battery"]["init"], "maxp": x["battery"]["maxp"]}
            spec["pilots_a_hair_below_zero"] = True
    return spec


def prop_replug(spec, rec):
    """Ledger at the EVSE / EV level across several uses of ONE EV object: charge, unplug,
    EV.reset(), plug into another station, charge again (leading 0 A pilots included).  What a
    network would record (the connected EV's current_charging_rate after each set_pilot) must
    integrate to the EV's counter and to the battery's gain since the last reset."""
    from acnportal.acnsim import EV, EVSE

    from ..obs import patched_normal
    from .c03 import build_battery

    V, T = spec["V"], spec["T"]
    batt = build_battery(spec)
    ev = EV(0, 100, 1e9, "st-1", "sess-1", batt)
    evse = EVSE("st-1")
    evse.plugin(ev)
    recorded = []
    labels = {spec["model"]}
    sessions = 1
    with patched_normal(spec["zs"]):
        for i, pilot in enumerate(spec["pilots"]):
            if i in spec.get("replug", ()):
                evse.unplug()
                if spec.get("reset_on_replug", True):
                    ev.reset()
                    recorded = []
                    labels.add("reset_between_sessions")
                evse = EVSE("st-%d" % (i + 2))
                evse.plugin(ev)
                sessions += 1
            evse.set_pilot(pilot, V, T)
            recorded.append(evse.ev.current_charging_rate)  # what ChargingNetwork.current_charging_rates reads
            ledger = math.fsum(r * V / 1000.0 * (T / 60.0) for r in recorded)
            require(close(ev.energy_delivered, ledger, ab=1e-11 * max(1.0, spec["cap"])), "ev_energy_equals_recorded_rates", lambda: "use %d step %d pilot %r: EV reports %r kWh, recorded rates integrate to %r kWh (%r)" % (sessions, i, pilot, ev.energy_delivered, ledger, recorded))
            init, cur = battery_state(ev)
            require(close(cur - init, ev.energy_delivered, ab=1e-11 * max(1.0, spec["cap"])) or not spec.get("reset_on_replug", True) and False, "battery_gain_equals_ev_energy", lambda: "use %d step %d: battery gained %r kWh, EV reports %r kWh" % (sessions, i, cur - init, ev.energy_delivered))
    if sessions > 1:
        labels.add("ev_object_used_again")
    rec.case(spec, labels, sessions > 1 and any(p == 0 for p in spec["pilots"]))


@st.composite
def replug_cases(draw):
    from .c03 import cases as c03_cases

    spec = draw(c03_cases())
    spec["levels"] = None
    spec["bad_resets"] = []
    n = len(spec["pilots"])
    spec["replug"] = sorted(draw(st.sets(st.integers(1, max(1, n - 1)), max_size=3)))
    # every new use starts with a 0 A period or two
    pilots = list(spec["pilots"])
    for k in spec["replug"]:
        if k < len(pilots) and draw(st.booleans()):
            pilots[k] = 0.0
    spec["pilots"] = pilots
    spec["reset_on_replug"] = True
    return spec


def stochastic_cases():
    from . import c19

    return c19.cases()


def replay(subcheck, spec, rec):
    if subcheck == "ledger_stochastic":
        return prop_stochastic(spec, rec)
    if subcheck == "ledger_replug":
        return prop_replug(spec, rec)
    return prop(spec, rec)
