"""C03 - physical bounds: 0 <= actual rate <= pilot, power <= max, charge <= capacity."""
from hypothesis import strategies as st

from acnportal.acnsim import EV, EVSE, Battery, FiniteRatesEVSE, Linear2StageBattery

from ..obs import patched_normal, stored_charge
from ..runner import Given, require
from .c14 import PERIOD, PILOT, TINY_PILOT, VOLT, battery_params

ID = "C03"
RULE = (
    "(a) battery level: Hypothesis draws a battery of each model (ideal; two-stage continuous / "
    "stepwise; noise level 0, 0.05, 1, 5 kW) with capacity, initial charge (mass at 0, around the "
    "transition SoC, full), max power, transition SoC, voltage, period, a SEQUENCE of 1-30 pilots "
    "from {0} u {5e-324 .. 1e-10} u [1e-8,1e3] A applied one after another through EVSE.set_pilot -> EV.charge -> "
    "Battery.charge (the EV is occasionally unplugged and plugged into another idle EVSE; in a quarter of the cases the EVSE is finite-rate and the pilots sit up to 1e-3 A off its levels; a refused reset above capacity may be interleaved), and the noise draws themselves (numpy.random.normal is patched to hand out "
    "generated standard-normal values incl. 0, +-0.01, +-3, +-6 sigma). After every step: "
    "-1e-8 <= rate <= pilot+1e-8 A, power <= max power, rate*V = power, stored charge non-decreasing "
    "and <= capacity, EV energy non-decreasing. (b) simulation level: generated simulations "
    "(sub-check sim_bounds) with 0 <= charging_rates <= pilot_signals column-wise. Non-trivial = the "
    "sequence crosses the transition SoC or reaches full, or noise is on with some |draw| larger "
    "than the pilot power; distinct by spec hash."
)
ASSUMPTIONS = [
    "non-zero pilots down to 5e-324 A are generated since the D14 repair (before, values below 1e-8 A were treated as outside the domain)",
    "slack: 1e-8 A on currents, 1e-9 relative on power, max(1e-12*capacity, 1e-8 A * V * T) on stored charge",
]


def build_battery(spec):
    if spec.get("ints"):
        from .c14 import as_given

        spec = dict(spec, cap=as_given(spec, spec["cap"]), init=as_given(spec, spec["init"]), maxp=as_given(spec, spec["maxp"]))
    if spec["model"] == "ideal":
        return Battery(spec["cap"], spec["init"], spec["maxp"])
    return Linear2StageBattery(
        spec["cap"],
        spec["init"],
        spec["maxp"],
        noise_level=spec["noise"],
        transition_soc=spec["tsoc"],
        charge_calculation="continuous" if spec["model"] == "cont" else "stepwise",
    )


def prop(spec, rec):
    cap, V, T, maxp = spec["cap"], spec["V"], spec["T"], spec["maxp"]
    # a battery cannot be created above its capacity (at capacity it can)
    for over, ok in ((cap * (1 + 1e-9) + 1e-12, False), (cap, True)):
        try:
            build_battery(dict(spec, init=over))
            made = True
        except ValueError:
            made = False
        require(made == ok, "constructor_refuses_charge_above_capacity", lambda: "%s battery with capacity %r and initial charge %r: %s" % (spec["model"], cap, over, "accepted" if made else "refused"))
    batt = build_battery(spec)
    ev = EV(0, 100, 1e9, "st-1", "sess-1", batt)
    levels = spec.get("levels")

    def new_evse(sid):
        # continuous 0..inf (every non-negative pilot is allowed) or a finite-rate EVSE whose
        # levels are the pilots of this case, applied up to 1e-3 A off the level
        return FiniteRatesEVSE(sid, levels) if levels else EVSE(sid)

    evse = new_evse("st-1")
    evse.plugin(ev)
    labels = {spec["model"]}
    if spec["model"] != "ideal" and spec["noise"] > 0:
        labels.add("noise")
    # stored charge may move by rounding noise: 1e-12 relative to capacity, or what the admitted
    # current slack of 1e-8 A amounts to over one period (the stepwise model scales a 1-ulp
    # overshoot of the capacity by max_power / (1 - transition_soc), e.g. -1.5e-12 kW at 0.999)
    slack_c = max(1e-12 * max(1.0, cap), 1e-8 * V / 1000.0 * T / 60.0)
    crossed = False
    big_noise = False
    with patched_normal(spec["zs"]) as feed:
        rep = int(spec.get("repeat", 1))
        if rep * len(spec["pilots"]) >= 100:
            labels.add("hundred_or_more_calls_on_one_battery")
        for i, pilot in enumerate(list(spec["pilots"]) * rep):
            if i in spec.get("replug", ()):
                # the driver moves the car: unplug, plug into another (idle) station
                evse.unplug()
                evse = new_evse("st-%d" % (i + 2))
                evse.plugin(ev)
                labels.add("replugged")
            if i in spec.get("bad_resets", ()):
                # a refused reset (above capacity) must leave the battery within its bounds
                try:
                    batt.reset(cap * 1.5 + 1.0)
                except ValueError:
                    labels.add("refused_reset")
            before = stored_charge(batt)
            e_before = ev.energy_delivered
            soc_before = before / cap
            calls_before = feed.calls
            if spec.get("ints"):
                from .c14 import as_given

                evse.set_pilot(as_given(spec, pilot), as_given(spec, V), as_given(spec, T))
            else:
                evse.set_pilot(pilot, V, T)
            rate = ev.current_charging_rate
            after = stored_charge(batt)
            power = batt.current_charging_power
            ctx = lambda: "step %d pilot %r A: rate %r A, power %r kW, charge %r -> %r kWh (capacity %r, max power %r)" % (i, pilot, rate, power, before, after, cap, maxp)  # noqa: E731
            require(rate >= -1e-8, "rate_nonnegative", ctx)
            require(rate <= pilot + 1e-8, "rate_le_pilot", ctx)
            require(power <= maxp * (1 + 1e-9) + 1e-12, "power_le_max", ctx)
            require(abs(rate * V / 1000 - power) <= 1e-9 * (1 + abs(power)), "rate_power_consistent", ctx)
            require(after >= before - slack_c, "charge_nondecreasing", ctx)
            require(after <= cap * (1 + 1e-12), "charge_le_capacity", ctx)
            require(ev.energy_delivered >= e_before - slack_c, "energy_nondecreasing", ctx)
            if spec["model"] != "ideal":
                if soc_before < spec["tsoc"] <= after / cap:
                    crossed = True
                if feed.calls > calls_before and spec["noise"] > 0:
                    z = spec["zs"][(feed.i - 1) % len(spec["zs"])]
                    if abs(z) * spec["noise"] > pilot * V / 1000:
                        big_noise = True
            if after >= cap * (1 - 1e-9):
                labels.add("reaches_full")
    if levels:
        labels.add("finite_rate_evse")
    if spec.get("ints"):
        labels.add("integer_arguments")
    if crossed:
        labels.add("crosses_transition")
    if big_noise:
        labels.add("noise_exceeds_pilot_power")
    nt = crossed or "reaches_full" in labels or big_noise
    rec.case(spec, labels, nt)


Z = st.one_of(st.sampled_from([0.0, 0.01, -0.01, 3.0, -3.0, 6.0, -6.0, 1.0, -1.0]), st.floats(-6, 6))


@st.composite
def cases(draw):
    cap, init, maxp, tsoc = draw(battery_params())
    model = draw(st.sampled_from(["ideal", "cont", "cont", "step", "step"]))
    pilots = draw(st.lists(st.one_of(PILOT, PILOT, PILOT, TINY_PILOT), min_size=1, max_size=30))
    levels = None
    ints = draw(st.integers(0, 4)) == 0
    if ints:
        # whole numbers written as ints (208 V, 5 min, 32 A, 60 kWh)
        cap = float(draw(st.sampled_from([8, 24, 60, 100])))
        init = float(draw(st.sampled_from([0, 0, int(cap * 0.5), int(cap) - 1, int(cap)])))
        maxp = float(draw(st.sampled_from([3, 7, 11, 50])))
        pilots = [float(draw(st.sampled_from([0, 6, 8, 16, 32, 80]))) for _ in pilots]
    elif draw(st.integers(0, 3)) == 0:
        # finite-rate EVSE: its levels are rounded pilots, the pilots sit up to 1e-3 A off them
        levels = sorted({round(p, 2) for p in pilots if p > 0} | {8.0})
        off = [0.0, -9e-4, 9e-4, -5e-4, 5e-4]
        pilots = [max(0.0, round(p, 2) + draw(st.sampled_from(off))) if p > 0 else 0.0 for p in pilots]
    return {
        "model": model,
        "cap": cap,
        "init": init,
        "maxp": maxp,
        "tsoc": tsoc,
        "noise": 0 if model == "ideal" else draw(st.sampled_from([0, 0.05, 1, 5, 5])),
        "V": float(draw(st.sampled_from([120, 208, 240]))) if ints else draw(VOLT),
        "T": float(draw(st.sampled_from([1, 5, 7, 15, 60]))) if ints else draw(PERIOD),
        "pilots": pilots,
        # the same pilot pattern over and over: one battery / EV / EVSE through hundreds of calls
        "repeat": draw(st.sampled_from([1, 1, 1, 1, 1, 10, 40])),
        "ints": ints,
        "levels": levels,
        "bad_resets": sorted(draw(st.sets(st.integers(0, 29), max_size=2))),
        "zs": draw(st.lists(Z, min_size=1, max_size=12)),
        "replug": sorted(draw(st.sets(st.integers(1, 29), max_size=3))),
    }


def subchecks(tier):
    subs = [
        Given(
            "battery_bounds",
            cases(),
            prop,
            quick=3000,
            thorough=400000,
            floors={"noise": 0.252, "noise_exceeds_pilot_power": 0.1, "reaches_full": 0.1, "cont": 0.164, "step": 0.172},
        )
    ]
    try:
        from . import sim_common
    except ImportError:  # pragma: no cover - simulation layer not present
        return subs
    return subs + sim_common.c03_subchecks(tier)


def replay(subcheck, spec, rec):
    if subcheck == "battery_bounds":
        return prop(spec, rec)
    from . import sim_common

    return sim_common.replay_c03(subcheck, spec, rec)
