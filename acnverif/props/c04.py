"""C04 - applied pilots are exactly what the submitted schedules say."""
import copy

import numpy as np
from hypothesis import strategies as st

from acnportal.acnsim.interface import InvalidScheduleError

from .. import scenario as sc
from ..runner import Given, require

ID = "C04"
RULE = (
    "Hypothesis generates scenarios whose scripted scheduler answers, per period, with a generated "
    "schedule: empty mapping, any non-empty subset of stations, length 1-6 (reaching beyond the "
    "pre-allocated horizon, also in the LAST period), values as int / float / numpy.float64 / "
    "numpy rows, mapping entries in shuffled order; max_recompute in {None,1,2,3,7}. Oracle: the "
    "overlay matrix of the reference model (a schedule submitted at t overwrites all stations "
    "for [t,t+len), omitted stations 0, empty = no-op, uncovered = 0) must equal the final "
    "pilot_signals on its whole width (and pilot_signals_as_df under the right column names), and "
    "EVSE.current_pilot read after the charging update of EVERY period (update_pilots "
    "override) must equal the model column of that period. Metamorphic: reversing the entry order "
    "of every mapping gives a bit-identical matrix. Malformed variant (unknown station id / rows of "
    "unequal length returned once at a generated scheduler call): run() must raise KeyError / "
    "InvalidScheduleError, a state snapshot taken inside the scheduler just before returning must "
    "equal the state after the exception, and calling run() again (well-formed answer) must "
    "complete and match the model. JSON variant: the run is interrupted at a generated scheduler "
    "call, dumped, loaded, given a fresh scheduler and resumed; the final matrix must still equal "
    "the overlay of everything submitted (pending multi-period schedules survive). Non-trivial = two successive schedules overlap in time and one "
    "omits a station or reaches beyond the current width."
)
ASSUMPTIONS = [
    "pilots are drawn from the addressed station's allowable set; infeasible schedules only warn",
    "the scheduler's answer is a function of the period only (table[t mod len])",
]


def snapshot(h):
    sim = h.sim
    return {
        "pilots": sim.pilot_signals.copy(),
        "rates": sim.charging_rates.copy(),
        "iteration": sim.iteration,
        "peak": sim.peak,
        "n_hist": len(sim.event_history),
        "energies": {k: ev.energy_delivered for k, ev in h.evs.items()},
        "occ": {sid: (h.net.get_ev(sid).session_id if h.net.get_ev(sid) is not None else None) for sid in h.net.station_ids},
        "evse_pilots": {sid: h.evses[sid].current_pilot for sid in h.net.station_ids},
        "queue_len": len(sim.event_queue),
        "schedule_history": None if sim.schedule_history is None else sorted(sim.schedule_history),
    }


def same_state(a, b):
    for k in a:
        if isinstance(a[k], np.ndarray):
            if a[k].shape != b[k].shape or not np.array_equal(a[k], b[k]):
                return k
        elif a[k] != b[k]:
            return k
    return None


def run_once(spec, reverse_order=False):
    spec2 = spec
    if reverse_order:
        spec2 = copy.deepcopy(spec)
        for e in spec2["scheduler"]["table"]:
            if e.get("order"):
                e["order"] = list(reversed(e["order"]))
    h = sc.build_sim(spec2, net_cls=sc.TraceNetwork)
    return h


def prop(spec, rec):
    m = sc.Model(spec)
    labels = sc.scenario_labels(spec)
    h = run_once(spec)
    h.net.step_bound = m.end + 1
    algo = h.scheduler
    mal = spec.get("malformed")
    if mal:
        algo.malformed = mal
        algo.snapshot = lambda: snapshot(h)
        raised = None
        try:
            sc.run_sim(h)
        except (KeyError, InvalidScheduleError) as e:
            raised = e
        want = KeyError if mal["kind"] == "unknown_station" else InvalidScheduleError
        require(raised is not None, "malformed_schedule_rejected", lambda: "run() accepted a malformed schedule (%s) at period %d" % (mal["kind"], mal["t"]))
        require(isinstance(raised, want), "malformed_schedule_error_type", lambda: "%s raised %r" % (mal["kind"], raised))
        after = snapshot(h)
        diff = same_state(algo.before_malformed, after)
        require(diff is None, "malformed_schedule_changes_no_state", lambda: "state component %r changed by a rejected schedule (before %r, after %r)" % (diff, algo.before_malformed[diff], after[diff]))
        labels.add("malformed_" + mal["kind"])
        if mal["entry"].get("short_row_of_length_one"):
            labels.add("malformed_one_row_of_length_one")
        # the simulation can go on with a well-formed schedule
        sc.run_sim(h)
    else:
        sc.run_sim(h)
    sim = h.sim
    require(sim.iteration == m.end and sim.event_queue.empty(), "run_completes", lambda: "iteration %r, model end %r" % (sim.iteration, m.end))

    if spec.get("scribble_results"):
        # the caller has post-processed the exported tables in place: the record stays what it was
        sc.scribble_on_results(sim)
        labels.add("exported_result_tables_edited_in_place")
    P = sim.pilot_signals
    M = m.overlay(algo.submitted, P.shape[1])
    require(P.shape[0] == len(m.station_ids) and P.shape[1] >= m.end, "pilot_matrix_shape", lambda: "shape %r, periods %d" % (P.shape, m.end))
    require(M.shape[1] <= P.shape[1], "schedule_beyond_width_kept", lambda: "schedules reach period %d but the pilot matrix has width %d" % (M.shape[1], P.shape[1]))
    require(np.array_equal(P, M[:, : P.shape[1]]), "pilot_matrix_equals_overlay", lambda: "pilot_signals\n%r\nmodel overlay\n%r\nsubmitted %r" % (P, M, algo.submitted))
    df = sim.pilot_signals_as_df()
    require(list(df.columns) == m.station_ids, "df_columns", lambda: "columns %r" % list(df.columns))
    require(np.array_equal(df.to_numpy().T, P), "df_content", "pilot_signals_as_df differs from pilot_signals")

    # what every EVSE was actually told in every period
    require(sorted(h.net.pilot_trace) == list(range(m.end)), "one_update_per_period", lambda: "pilots applied in periods %r" % sorted(h.net.pilot_trace))
    for t in range(m.end):
        col = h.net.pilot_trace[t]
        for i, sid in enumerate(m.station_ids):
            require(col[sid] == M[i, t], "applied_pilot_equals_schedule", lambda: "period %d station %s was sent %r A, the schedules say %r A" % (t, sid, col[sid], M[i, t]))
    if sim.schedule_history is not None:
        require(sorted(sim.schedule_history) == sorted(algo.submitted), "schedule_history_periods", lambda: "history %r, submitted %r" % (sorted(sim.schedule_history), sorted(algo.submitted)))

    # the same scenario interrupted at a scheduler call, dumped, loaded and resumed: schedules
    # submitted before the dump that reach beyond it must survive
    if not mal and spec.get("json_at") is not None:
        import warnings

        from acnportal.acnsim import Simulator

        hj = sc.build_sim(spec, crash_at=spec["json_at"])
        try:
            sc.run_sim(hj)
        except sc.Crash:
            pass
        with warnings.catch_warnings():
            warnings.simplefilter("ignore")
            s2 = Simulator.from_json(hj.sim.to_json())
        sched2 = sc.make_scheduler(spec)
        s2.update_scheduler(sched2)
        h2j = sc.Handle(spec, s2, s2.network, {}, sched2)
        h2j.feed = hj.feed
        sc.run_sim(h2j)
        merged = dict(hj.scheduler.submitted)
        merged.update(sched2.submitted)
        Mj = m.overlay(merged, s2.pilot_signals.shape[1])
        require(Mj.shape[1] <= s2.pilot_signals.shape[1] and np.array_equal(s2.pilot_signals, Mj[:, : s2.pilot_signals.shape[1]]), "pilot_matrix_after_json_resume", lambda: "after a dump/load at period %d the pilot matrix\n%r\ndiffers from the overlay of all submitted schedules\n%r" % (spec["json_at"], s2.pilot_signals, Mj))
        require(np.array_equal(s2.pilot_signals, P), "pilot_matrix_after_json_resume_vs_uninterrupted", "pilot matrix after dump/load/resume differs from the uninterrupted run")
        # ... and the restored stations must really have been SENT those pilots: the cars on them
        # draw exactly what they drew in the uninterrupted run (same batteries, same noise draws)
        require(s2.charging_rates.shape == sim.charging_rates.shape and np.array_equal(s2.charging_rates, sim.charging_rates), "applied_pilot_after_json_resume", lambda: "after a dump/load at period %d the recorded pilots equal the schedules but the stations drew\n%r\ninstead of\n%r" % (spec["json_at"], s2.charging_rates, sim.charging_rates))
        labels.add("json_resume")

    # metamorphic: entry order of the mappings is irrelevant
    if not mal:
        h2 = run_once(spec, reverse_order=True)
        sc.run_sim(h2)
        require(h2.sim.pilot_signals.shape == P.shape and np.array_equal(h2.sim.pilot_signals, P), "entry_order_irrelevant", "re-ordering the entries of the schedule mappings changed pilot_signals")
        require(np.array_equal(h2.sim.charging_rates, sim.charging_rates), "entry_order_irrelevant_rates", "re-ordering the entries of the schedule mappings changed charging_rates")

    # labels
    sub = algo.submitted
    ts = sorted(t for t in sub if len(sub[t]))
    n = len(m.station_ids)
    overlap = omit = beyond = False
    width0 = max([s["departure"] for s in spec["sessions"]] + list(spec.get("recomputes", []))) + 1
    for a, b in zip(ts, ts[1:]):
        if a + len(next(iter(sub[a].values()))) > b:
            overlap = True
    for t in ts:
        L = len(next(iter(sub[t].values())))
        if len(sub[t]) < n:
            omit = True
        if t + L > width0:
            beyond = True
            labels.add("beyond_horizon")
            if t == m.last:
                labels.add("beyond_horizon_at_last_period")
    if any(len(sub[t]) == 0 for t in sub):
        labels.add("empty_schedule")
    if overlap:
        labels.add("overlapping_schedules")
    if omit:
        labels.add("omits_station")
    for e in spec["scheduler"]["table"]:
        labels.add("vtype_" + e.get("vtype", "none"))
    if spec.get("int_first"):
        labels.add("all_integer_schedule_first")
    if np.isinf(P[:, : m.end]).any():
        labels.add("infinite_pilot_applied")
    for t in ts:
        for sid, vals in sub[t].items():
            lv = sc.allowed_levels([x for x in spec["stations"] if x["id"] == sid][0])
            if any(float(v) not in lv for v in vals) and t < m.end:
                labels.add("off_level_pilot")
                if [x for x in spec["stations"] if x["id"] == sid][0]["kind"] == "finite":
                    labels.add("off_level_pilot_finite_evse")
    rec.case(spec, labels, overlap and (omit or beyond))


@st.composite
def cases(draw):
    spec = draw(sc.scenarios(scheduler="scripted", sched_max_len=6))
    spec["scribble_results"] = draw(st.integers(0, 3)) == 0
    if draw(st.integers(0, 4)) == 0:
        m = sc.Model(spec)
        t = draw(st.sampled_from(m.invocations))
        entry = copy.deepcopy(draw(sc.schedule_entries(spec["stations"], max_len=4, empty_ok=False)))
        kind = draw(st.sampled_from(["unknown_station", "unequal_length", "unequal_length"]))
        if kind == "unequal_length" and len(spec["stations"]) < 2:
            kind = "unknown_station"
        if kind == "unknown_station":
            L = len(next(iter(entry["rows"].values())))
            entry["rows"]["st-unknown"] = [0.0] * L
            pos = draw(st.integers(0, len(entry["order"])))
            entry["order"].insert(pos, "st-unknown")
        else:
            ids = [s["id"] for s in spec["stations"]]
            a = entry["order"][0]
            b = draw(st.sampled_from([i for i in ids if i != a]))
            lv = sc.allowed_levels([s for s in spec["stations"] if s["id"] == b][0])
            L = len(entry["rows"][a])
            entry["rows"][b] = [lv[-1]] * (L + draw(st.sampled_from([1, 2, -1])) or L + 1)
            if len(entry["rows"][b]) == L:
                entry["rows"][b] = entry["rows"][b] + [lv[-1]]
            if b not in entry["order"]:
                entry["order"].append(b)
            how = draw(st.sampled_from(["any", "one_short_last", "one_short_first", "one_short_middle"]))
            if how != "any":
                # the odd row has length 1 (a scalar-like row numpy would happily stretch), every
                # other row is longer; the odd row comes first / last / in between in the mapping
                Lb = max(2, L)
                for k_ in entry["rows"]:
                    v = list(entry["rows"][k_])
                    entry["rows"][k_] = (v + [v[-1]] * Lb)[:Lb]
                entry["rows"][b] = [lv[-1]]
                rest = [x for x in entry["order"] if x != b]
                pos = {"one_short_last": len(rest), "one_short_first": 0, "one_short_middle": len(rest) // 2}[how]
                entry["order"] = rest[:pos] + [b] + rest[pos:]
                entry["short_row_of_length_one"] = True
            if entry.get("vtype") == "nparray":
                entry["vtype"] = "float"
        spec["malformed"] = {"t": t, "kind": kind, "entry": entry}
    elif draw(st.integers(0, 2)) == 0:
        spec["json_at"] = draw(st.sampled_from(sc.Model(spec).invocations))
    if draw(st.integers(0, 4)) == 0:
        # an all-integer schedule for every station submitted in period 0 and reaching to (or
        # beyond) the last queued event, followed later by schedules with fractional values:
        # the pilot matrix must not take its number type from the first schedule it sees
        m = sc.Model(spec)
        L = m.last + 1 + draw(st.sampled_from([0, 0, 1, 3]))
        rows0, rows1 = {}, {}
        L1 = draw(st.integers(1, 2))
        for stn in spec["stations"]:
            ints = [v for v in sc.allowed_levels(stn) if float(v).is_integer() and v < 1e5]
            rows0[stn["id"]] = [draw(st.sampled_from(ints)) for _ in range(L)]
            if stn["kind"] == "finite":
                frac = max(float(r) for r in stn["rates"]) - 5e-4
            elif stn["kind"] == "deadband":
                frac = float(stn["end"]) + 0.5
            else:
                frac = 7.5
            rows1[stn["id"]] = [frac] * L1
        first = {"rows": rows0, "order": list(draw(st.permutations(sorted(rows0)))), "vtype": "int"}
        second = {"rows": rows1, "order": sorted(rows1), "vtype": "float"}
        spec["scheduler"]["table"] = [first, second] + spec["scheduler"]["table"][:2]
        if spec["scheduler"].get("max_recompute") is None and 0 not in m.event_times:
            spec["scheduler"]["max_recompute"] = draw(st.sampled_from([1, 2]))
        spec["int_first"] = True
    return spec


def subchecks(tier):
    return [
        Given(
            "overlay",
            cases(),
            prop,
            quick=500,
            thorough=40000,
            floors={"json_resume": 0.062, "beyond_horizon_at_last_period": 0.04, "malformed_unknown_station": 0.04, "malformed_unequal_length": 0.02, "malformed_one_row_of_length_one": 0.005, "overlapping_schedules": 0.3, "omits_station": 0.166, "empty_schedule": 0.1, "off_level_pilot_finite_evse": 0.025, "all_integer_schedule_first": 0.08, "infinite_pilot_applied": 0.015},
            min_nontrivial=50,
        )
    ]


def replay(subcheck, spec, rec):
    return prop(spec, rec)
