"""C05 - the scheduler is invoked exactly when required and sees the true, isolated state."""
import warnings
from datetime import timedelta

import numpy as np

from .. import scenario as sc
from ..runner import Given, require

ID = "C05"
RULE = (
    "Hypothesis generates scenarios (generator of C01; max_recompute None/1/2/3/7; scripted, "
    "uncontrolled, greedy and round-robin schedulers) and runs each twice with the same decision "
    "function: a PURE recording scheduler and a VANDAL that, after fixing its answer, overwrites "
    "every field of every SessionInfo it was handed and of a second active_sessions() copy, every "
    "array/list of infrastructure_info(), the dictionaries from last_applied_pilot_signals / "
    "last_actual_charging_rate, the list from allowable_pilot_signals and the deprecated active_evs "
    "copies (incl. their batteries). Oracle: (1) the list of periods with a scheduler call equals "
    "the reference model's (event in the period, or max_recompute elapsed, or never run), one call "
    "per period, all events with time <= t already in event_history; (2) at every call "
    "current_time/current_datetime, the set of active sessions (= connected and remaining demand "
    "> 1e-3 kWh by the recorded ledger up to t-1) with all fields, last_actual_charging_rate "
    "(= recorded rate of t-1, 0 for new arrivals), get_prev_peak (= max aggregate before t), "
    "last_applied_pilot_signals ({} for t<=1, else the model's overlay column t-1 for sessions "
    "connected at t-1) and the whole infrastructure description (constraint matrix by names, "
    "limits, phases, voltages, ids, max/min/allowable pilots, continuity, per-station accessors, "
    "remaining_amp_periods) equal the spec/model; (3) the vandal run's matrices, energies, event "
    "history, network description and its own later observations equal the pure run's. "
    "In a third of the cases the queue also holds explicit UnplugEvents ahead of a session's departure (the simulator's own unplug event then finds the station empty or re-occupied and is an event of its period all the same). "
    "Non-trivial = max_recompute >= 2 with an event-free gap of that length, or a session becomes "
    "satisfied mid-stay."
)
ASSUMPTIONS = [
    "sessions whose remaining demand is within 1e-6 kWh of the 1e-3 kWh activity threshold are not judged (counted)",
    "only accessors documented as copies are vandalised (get_constraints hands out live arrays by design)",
]

THRESH = 1e-3


def observe(log, vandal=False):
    def observer(algo, active):
        iface = algo.interface
        o = {"t": iface.current_time, "dt": iface.current_datetime.isoformat(), "n_hist": len(iface._simulator.event_history)}
        o["period"] = iface.period
        o["mr"] = iface.max_recompute_time
        o["active_arg"] = sorted(session_tuple(s) for s in active)
        again = iface.active_sessions()
        o["active_again"] = sorted(session_tuple(s) for s in again)
        o["rap"] = {s.session_id: float(iface.remaining_amp_periods(s)) for s in again}
        o["lap"] = {k: float(v) for k, v in iface.last_applied_pilot_signals.items()}
        o["lar"] = {k: float(v) for k, v in iface.last_actual_charging_rate.items()}
        o["peak"] = float(iface.get_prev_peak())
        info = iface.infrastructure_info()
        o["info"] = info_dict(info)
        o["derived"] = {s.session_id: [float(s.remaining_demand), int(s.remaining_time), int(s.arrival_offset)] for s in again}
        o["index"] = [int(info.get_station_index(sid)) for sid in info.station_ids] + [int(info.num_stations), int(info.num_constraints) if hasattr(info, "num_constraints") else len(info.constraint_ids)]
        con = iface.get_constraints()
        # read by position: (matrix, limits, constraint names, station ids)
        o["constraint_tuple"] = {"matrix": np.asarray(con[0], dtype=float).tolist(), "limits": [float(x) for x in con[1]], "ids": list(con[2]), "stations": list(con[3])}
        o["per_station"] = {}
        for sid in info.station_ids:
            cont, allow = iface.allowable_pilot_signals(sid)
            o["per_station"][sid] = [bool(cont), [float(a) for a in allow], float(iface.max_pilot_signal(sid)), float(iface.min_pilot_signal(sid)), float(iface.evse_voltage(sid)), float(iface.evse_phase(sid))]
        log.append(o)

    return observer


def session_tuple(s):
    return (s.session_id, s.station_id, float(s.requested_energy), float(s.energy_delivered), int(s.arrival), int(s.departure), int(s.estimated_departure), int(s.current_time), [float(x) for x in s.min_rates], [float(x) for x in s.max_rates])


def info_dict(info):
    return {
        "matrix": np.asarray(info.constraint_matrix, dtype=float).tolist(),
        "limits": [float(x) for x in info.constraint_limits],
        "phases": [float(x) for x in info.phases],
        "voltages": [float(x) for x in info.voltages],
        "constraint_ids": list(info.constraint_ids),
        "station_ids": list(info.station_ids),
        "max_pilot": [float(x) for x in info.max_pilot],
        "min_pilot": [float(x) for x in info.min_pilot],
        "allowable": [[float(a) for a in x] for x in info.allowable_pilots],
        "continuous": [bool(x) for x in info.is_continuous],
    }


def vandalise(algo, active, out):
    iface = algo.interface
    with warnings.catch_warnings():
        warnings.simplefilter("ignore")
        victims = list(active) + list(iface.active_sessions())
        for s in victims:
            s.station_id = "st-vandal"
            s.session_id = "sess-vandal"
            s.requested_energy = -5.0
            s.energy_delivered = 1e9
            s.arrival = 10 ** 6
            s.departure = -3
            s.estimated_departure = -3
            s.current_time = 77
            try:
                s.min_rates[:] = 99.0
                s.max_rates[:] = 0.0
            except Exception:
                s.min_rates = np.array([99.0])
                s.max_rates = np.array([0.0])
        info = iface.infrastructure_info()
        for arr in (info.constraint_matrix, info.constraint_limits, info.phases, info.voltages, info.max_pilot, info.min_pilot):
            try:
                arr[...] = 7.5
            except Exception:
                pass
        try:
            info.is_continuous[...] = ~info.is_continuous
        except Exception:
            pass
        for a in info.allowable_pilots:
            try:
                a[...] = 3.25
            except Exception:
                pass
        del info.constraint_ids[:]
        info.station_ids.reverse()
        info.station_ids.append("st-vandal")
        for d in (iface.last_applied_pilot_signals, iface.last_actual_charging_rate):
            for k in list(d):
                d[k] = -1.0
            d["sess-vandal"] = 5.0
        for sid in list(iface._simulator.network.station_ids):
            cont, allow = iface.allowable_pilot_signals(sid)
            try:
                allow[:] = [1.0, 2.0, 3.0]
            except Exception:
                pass
        for ev in iface.active_evs:
            ev._energy_delivered = 1e9
            ev._current_charging_rate = -4.0
            ev.arrival = 10 ** 6
            ev.departure = -1
            ev.estimated_departure = -1
            ev.update_station_id("st-vandal")
            ev._battery._current_charge = 0.0
            ev._battery._current_charging_power = 123.0
            ev._battery._capacity = 1e-9


def expected_info(spec):
    ids = [s["id"] for s in spec["stations"]]
    out = {"station_ids": ids, "phases": [float(s["phase"]) for s in spec["stations"]], "voltages": [float(s["voltage"]) for s in spec["stations"]]}
    mx, mn, allow, cont = [], [], [], []
    for s in spec["stations"]:
        if s["kind"] == "cont":
            m = float("inf") if s["max"] is None else float(s["max"])
            mx.append(m), mn.append(float(s.get("min", 0))), allow.append([float(s.get("min", 0)), m]), cont.append(True)
        elif s["kind"] == "deadband":
            # DeadbandEVSE deliberately keeps BaseEVSE.min_rate = 0 (its min_rate argument is
            # deprecated); the deadband is advertised through allowable_pilot_signals only
            mx.append(float(s["max"])), mn.append(0.0), allow.append([float(s["end"]), float(s["max"])]), cont.append(True)
        else:
            lv = sorted({0.0} | {float(r) for r in s["rates"]})
            pos = [r for r in lv if r > 0]
            mx.append(max(lv)), mn.append(min(pos) if pos else 0.0), allow.append(lv), cont.append(False)
    out.update(max_pilot=mx, min_pilot=mn, allowable=allow, continuous=cont)
    out["constraints"] = {c["name"]: (float(c["limit"]), [float(c["coeffs"].get(i, 0.0)) for i in ids]) for c in spec["constraints"]}
    return out


def check_observations(spec, m, log, R, overlay, rec, labels):
    start = sc.parse_start(spec)
    period = spec["period"]
    exp = expected_info(spec)
    ts = [o["t"] for o in log]
    require(ts == m.invocations, "invoked_exactly_when_required", lambda: "scheduler called in periods %r, required %r (events at %r, max_recompute %r)" % (ts, m.invocations, sorted(m.event_times), m.max_recompute))
    agg = R.sum(axis=0)
    for o in log:
        t = o["t"]
        n = len(m.events_up_to(t))
        require(o["n_hist"] == n, "called_after_the_periods_events", lambda: "period %d: %d events processed before the call, model %d" % (t, o["n_hist"], n))
        want_dt = (start + timedelta(minutes=period) * t).isoformat()
        require(o["dt"] == want_dt, "current_datetime", lambda: "period %d: current_datetime %s, expected %s" % (t, o["dt"], want_dt))
        require(o["period"] == period and o["mr"] == m.max_recompute, "period_and_max_recompute", lambda: "period %r max_recompute %r" % (o["period"], o["mr"]))
        # active sessions
        want = {}
        ambiguous = set()
        for sid, s in m.sessions.items():
            if s["arrival"] <= t < m.leaves(sid):
                delivered = m.ledger(R, sid, t)
                rem = s["energy"] - delivered
                if abs(rem - THRESH) <= 1e-6:
                    ambiguous.add(sid)
                    rec.count("ambiguous_threshold")
                elif rem > THRESH:
                    want[sid] = delivered
                else:
                    labels.add("session_satisfied_mid_stay")
        for which in ("active_arg", "active_again"):
            got = {x[0]: x for x in o[which]}
            require(set(got) - ambiguous == set(want) - ambiguous, "active_session_set", lambda: "period %d (%s): active %r, expected %r" % (t, which, sorted(got), sorted(want)))
            for sid, x in got.items():
                if sid in ambiguous:
                    continue
                s = m.sessions[sid]
                est = s["est_departure"] if s.get("est_departure") is not None else s["departure"]
                require(x[1] == s["station"] and x[2] == float(s["energy"]) and x[4] == s["arrival"] and x[5] == s["departure"] and x[6] == est and x[7] == t, "session_fields", lambda: "period %d: session %r seen as %r" % (t, sid, x))
                require(abs(x[3] - want[sid]) <= 1e-9 * (1 + abs(want[sid])), "session_energy_delivered", lambda: "period %d: session %s energy_delivered %r, ledger %r" % (t, sid, x[3], want[sid]))
                rem_t = min(s["departure"] - s["arrival"], s["departure"] - t)
                require(len(x[8]) == rem_t and len(x[9]) == rem_t and all(v == 0 for v in x[8]) and all(v == float("inf") for v in x[9]), "session_rate_bounds_default", lambda: "period %d: session %s min/max rates %r %r" % (t, sid, x[8], x[9]))
        require(o["active_arg"] == o["active_again"], "argument_equals_query", "active sessions argument differs from active_sessions()")
        act = [sid for sid in got if sid not in ambiguous]
        # last actual rates, peak, last applied pilots
        for sid in act:
            s = m.sessions[sid]
            i = m.station_ids.index(s["station"])
            want_rate = float(R[i, t - 1]) if (t >= 1 and s["arrival"] <= t - 1) else 0.0
            require(sid in o["lar"] and o["lar"][sid] == want_rate, "last_actual_charging_rate", lambda: "period %d: session %s last rate %r, recorded %r" % (t, sid, o["lar"].get(sid), want_rate))
            V = spec["stations"][i]["voltage"]
            want_rap = (s["energy"] - want[sid]) * 1000 / V * 60 / period
            require(abs(o["rap"][sid] - want_rap) <= 1e-9 * (1 + abs(want_rap)), "remaining_amp_periods", lambda: "period %d: session %s remaining %r A*periods, expected %r" % (t, sid, o["rap"][sid], want_rap))
        require(set(o["lar"]) - ambiguous == set(act), "last_actual_charging_rate_keys", lambda: "period %d keys %r" % (t, sorted(o["lar"])))
        want_peak = max(0.0, float(agg[:t].max())) if t >= 1 else 0.0
        require(abs(o["peak"] - want_peak) <= 1e-9 * (1 + want_peak), "prev_peak", lambda: "period %d: get_prev_peak %r, max aggregate so far %r" % (t, o["peak"], want_peak))
        if t <= 1:
            require(o["lap"] == {}, "last_applied_pilots_empty_first_two_periods", lambda: "period %d: %r" % (t, o["lap"]))
        else:
            want_lap = {}
            for sid in act:
                s = m.sessions[sid]
                if s["arrival"] <= t - 1:
                    want_lap[sid] = float(overlay[m.station_ids.index(s["station"]), t - 1])
            got_lap = {k: v for k, v in o["lap"].items() if k not in ambiguous}
            require(got_lap == want_lap, "last_applied_pilot_signals", lambda: "period %d: %r, schedules say %r" % (t, got_lap, want_lap))
            if want_lap:
                labels.add("last_applied_nonempty")
        # infrastructure
        info = o["info"]
        for key in ("station_ids", "phases", "voltages", "max_pilot", "min_pilot", "allowable", "continuous"):
            require(info[key] == exp[key], "infrastructure_" + key, lambda: "period %d: %s = %r, spec says %r" % (t, key, info[key], exp[key]))
        require(sorted(info["constraint_ids"]) == sorted(exp["constraints"]) and len(info["matrix"]) == len(info["constraint_ids"]) == len(info["limits"]), "infrastructure_constraint_ids", lambda: "constraint ids %r" % info["constraint_ids"])
        for j, name in enumerate(info["constraint_ids"]):
            lim, row = exp["constraints"][name]
            require(info["limits"][j] == lim and info["matrix"][j] == row, "infrastructure_constraint_rows", lambda: "constraint %s: limit %r row %r, spec %r %r" % (name, info["limits"][j], info["matrix"][j], lim, row))
        # the namedtuple form of the same description
        ct = o["constraint_tuple"]
        require(ct["stations"] == exp["station_ids"] and sorted(ct["ids"]) == sorted(exp["constraints"]) and len(ct["matrix"]) == len(ct["ids"]) == len(ct["limits"]), "get_constraints_shape", lambda: "period %d: get_constraints() -> %r" % (t, ct))
        for j, name in enumerate(ct["ids"]):
            lim, row = exp["constraints"][name]
            require(ct["limits"][j] == lim and ct["matrix"][j] == row, "get_constraints_rows", lambda: "period %d: get_constraints() constraint %s: limit %r row %r, spec %r %r" % (t, name, ct["limits"][j], ct["matrix"][j], lim, row))
        n_st = len(exp["station_ids"])
        require(o["index"] == list(range(n_st)) + [n_st, len(exp["constraints"])], "station_index_and_counts", lambda: "period %d: get_station_index / num_stations / constraints -> %r" % (t, o["index"]))
        for sid in act:
            s = m.sessions[sid]
            rd, rt, ao = o["derived"][sid]
            require(abs(rd - (s["energy"] - want[sid])) <= 1e-9 * (1 + s["energy"]) and rt == min(s["departure"] - s["arrival"], s["departure"] - t) and ao == 0, "session_derived_fields", lambda: "period %d: session %s remaining_demand / remaining_time / arrival_offset = %r" % (t, sid, o["derived"][sid]))
        for k, sid in enumerate(exp["station_ids"]):
            ps = o["per_station"][sid]
            require(ps == [exp["continuous"][k], exp["allowable"][k], exp["max_pilot"][k], exp["min_pilot"][k], exp["voltages"][k], exp["phases"][k]], "per_station_accessors", lambda: "station %s: %r" % (sid, ps))


def net_description(net):
    return {
        "ids": list(net.station_ids),
        "matrix": None if net.constraint_matrix is None else np.asarray(net.constraint_matrix).tolist(),
        "limits": np.asarray(net.magnitudes).tolist(),
        "names": list(net.constraint_index),
        "voltages": dict(net.voltages),
        "phases": dict(net.phase_angles),
        "max": np.asarray(net.max_pilot_signals).tolist(),
        "min": np.asarray(net.min_pilot_signals).tolist(),
        "allow": [np.asarray(a).tolist() for a in net.allowable_rates],
        "cont": np.asarray(net.is_continuous).tolist(),
    }


def prop(spec, rec):
    m = sc.Model(spec)
    labels = sc.scenario_labels(spec)
    pure_log, vand_log = [], []
    hp = sc.build_sim(spec, observer=observe(pure_log))
    sc.run_sim(hp)
    R = hp.sim.charging_rates
    overlay = m.overlay(hp.scheduler.submitted, hp.sim.pilot_signals.shape[1])
    check_observations(spec, m, pure_log, R, overlay, rec, labels)

    hv = sc.build_sim(spec, observer=observe(vand_log))
    hv.scheduler.post = vandalise
    sc.run_sim(hv)
    for name in ("pilot_signals", "charging_rates"):
        a, b = getattr(hp.sim, name), getattr(hv.sim, name)
        require(a.shape == b.shape and np.array_equal(a, b), "vandal_changes_" + name, lambda: "a scheduler that mutates what it is handed changed %s:\npure\n%r\nvandal\n%r" % (name, a, b))
    require(hp.sim.peak == hv.sim.peak and hp.sim.iteration == hv.sim.iteration, "vandal_changes_peak_or_iteration", "peak/iteration differ")
    for sid in m.sessions:
        ep, ev = hp.evs[sid], hv.evs[sid]
        require(ep.energy_delivered == ev.energy_delivered and ep.arrival == ev.arrival and ep.departure == ev.departure and ep.station_id == ev.station_id, "vandal_changes_ev", lambda: "session %s: pure %r kWh, vandal %r kWh" % (sid, ep.energy_delivered, ev.energy_delivered))
    require([sc.event_key(e) for e in hp.sim.event_history] == [sc.event_key(e) for e in hv.sim.event_history], "vandal_changes_event_history", "event history differs")
    dp, dv = net_description(hp.net), net_description(hv.net)
    require(dp == dv, "vandal_changes_network", lambda: "network description differs: %r vs %r" % (dp, dv))
    require(len(pure_log) == len(vand_log), "vandal_changes_call_count", "number of scheduler calls differs")
    for a, b in zip(pure_log, vand_log):
        for k in a:
            require(a[k] == b[k], "vandal_changes_later_observation_" + k, lambda: "period %d: %s pure %r, vandal %r" % (a["t"], k, a[k], b[k]))

    mr = m.max_recompute
    if mr is not None and mr >= 2:
        ev_t = sorted(m.event_times)
        gaps = [b - a for a, b in zip(ev_t, ev_t[1:])] + ([ev_t[0]] if ev_t else [])
        if any(g > mr for g in gaps):
            labels.add("recompute_gap")
    if any(o["active_arg"] for o in pure_log):
        labels.add("has_active_sessions")
    if spec.get("start_tz"):
        labels.add("aware_start")
    if spec.get("early_unplugs"):
        labels.add("explicit_early_unplug")
        if any(m.occupant(m.sessions[sid]["station"], m.sessions[sid]["departure"] - 1) not in (None, sid) for sid in m.early):
            labels.add("stale_unplug_finds_other_session")
    rec.case(spec, labels, bool(labels & {"recompute_gap", "session_satisfied_mid_stay"}))


from hypothesis import strategies as st  # noqa: E402


@st.composite
def cases(draw):
    """Scenario generator of C01 plus, in a third of the cases, explicit UnplugEvents ahead of a
    session's own departure (a driver leaving early): the simulator's own unplug event at
    ev.departure then finds the station empty - or re-occupied by a session generated into the
    gap - and is an event of its period all the same."""
    spec = draw(sc.scenarios(energies=(0.02, 0.2, 1.0, 3.0, 12.0, 60.0)))
    if draw(st.integers(0, 3)) == 0:
        # an aware simulation start shortly before a DST change of its zone: current_datetime is
        # start + t x period in datetime arithmetic all the same
        spec["start"] = draw(st.sampled_from(["2020-03-08T00:30:00", "2020-03-08T01:55:00", "2020-11-01T00:45:00", "2020-06-01T12:00:00"]))
        spec["start_tz"] = draw(st.sampled_from(["pytz:America/Los_Angeles", "zoneinfo:America/Los_Angeles", "utc:"]))
    if draw(st.integers(0, 2)) == 0:
        early = []
        extra = []
        for s in spec["sessions"]:
            if s["departure"] - s["arrival"] >= 2 and draw(st.booleans()):
                t = draw(st.integers(s["arrival"] + 1, s["departure"] - 1))
                early.append({"session": s["id"], "t": t})
                if draw(st.booleans()):
                    # somebody else takes the space before the original departure time
                    a = draw(st.integers(t, s["departure"] - 1))
                    d = draw(st.integers(a + 1, s["departure"]))
                    x = dict(s, id=s["id"] + "-gap", arrival=a, departure=d, est_departure=None)
                    extra.append(x)
        if early:
            spec["early_unplugs"] = early
            spec["sessions"] = spec["sessions"] + extra
            n = len(spec["sessions"]) + len(spec["recomputes"]) + len(early)
            spec["event_order"] = list(draw(st.permutations(range(n))))
    # an experiment loop that builds its algorithm once: the scheduler object has served a complete
    # earlier run and is attached to this simulator with update_scheduler()
    if not spec["scheduler"].get("estimator") and draw(st.integers(0, 3)) == 0:
        spec["handed_down"] = True
    return spec


def subchecks(tier):
    return [
        Given(
            "invocation_and_isolation",
            cases(),
            prop,
            quick=300,
            thorough=20000,
            floors={"recompute_gap": 0.033, "session_satisfied_mid_stay": 0.089, "last_applied_nonempty": 0.3, "has_active_sessions": 0.454, "mr_None": 0.1, "explicit_early_unplug": 0.06, "aware_start": 0.1},
        )
    ]


def replay(subcheck, spec, rec):
    return prop(spec, rec)
