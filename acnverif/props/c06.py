"""C06 - feasibility check matches the phasor definition; all three checkers agree."""
from datetime import datetime

import numpy as np
from hypothesis import strategies as st

from acnportal.acnsim import EV, EVSE, Battery, ChargingNetwork, Current, EventQueue, PluginEvent, Simulator
from acnportal.acnsim.interface import Interface
from acnportal.algorithms import RoundRobin, SortedSchedulingAlgo, UncontrolledCharging, first_come_first_served
from acnportal.algorithms.utils import infrastructure_constraints_feasible

from ..oracles import phasor
from ..runner import Given, require

ID = "C06"
RULE = (
    "Hypothesis generates networks (1-6 stations registered in non-lexicographic order, 0-5 "
    "constraints with mixed-sign coefficients, phases from {0,30,-90,150,+-120,180,arbitrary}, "
    "absolute tolerance in {1e-5,0,1e-3,0.5}, relative in {1e-7,0,1e-3}, network-level and per call) "
    "and schedule matrices with 1-4 periods that are random or BOUNDARY-AIMED: a non-negative "
    "direction scaled so that the binding aggregate equals limit+tol+delta with delta in "
    "{+-3tol, +-tol/2, +-tol/100, +-1e-7, +-1e-3 limit}. Oracle: exact phasor predicate (math.fsum) "
    "with a guard band 1e-10(1+limit) inside which the case is only counted (ambiguous). Compared: "
    "ChargingNetwork.is_feasible, Interface.is_feasible (dict form, zero rows omitted, shuffled), "
    "algorithms.utils.infrastructure_constraints_feasible (2-D and, for one period, 1-D), in "
    "phase-aware and linear mode; linear-accepts => phase-aware-accepts; the comparison is repeated "
    "after update_constraint on a live network/interface. Sub-check 'unconstrained': constraint-free "
    "networks accept everything and the three bundled schedulers complete a simulation on them. "
    "Every question is asked twice (after the other mode was asked, linear-first in half of the cases; in a quarter a lenient what-if query of the same shape comes first) and the InfrastructureInfo handed to the algorithm-side check must be unchanged afterwards. "
    "Schedules also come with entries of both signs (phase-aware statement only), as whole numbers handed to the interface as Python ints for some stations next to float rows, and with columns that are permutations of each other (equal totals, different allocation). "
    "Non-trivial = the binding margin is within 3 tolerances (or 1e-6) of zero, or a mixed-sign row "
    "with non-zero phases is present; distinct by spec hash."
)
ASSUMPTIONS = [
    "the algorithm-side checker is given the same tolerances explicitly (its defaults are hard-coded)",
    "cases whose binding margin lies within 1e-10*(1+limit) of zero are not judged",
    "for schedules with negative entries only the phase-aware statement is judged (the linear relaxation is specified for non-negative schedules)",
]

START = datetime(2020, 1, 1)


def build(spec):
    net = ChargingNetwork(violation_tolerance=spec["net_vtol"], relative_tolerance=spec["net_rtol"])
    for s in spec["stations"]:
        net.register_evse(EVSE(s["id"], max_rate=s.get("max", 32.0)), s.get("voltage", 208.0), s["phase"])
    for c in spec["constraints"]:
        net.add_constraint(Current(dict(c["coeffs"])), c["limit"], name=c["name"])
    return net


def _rows(constraints, ids):
    return [[float(c["coeffs"].get(i, 0.0)) for i in ids] for c in constraints]


def _compare(spec, net, iface, constraints, rec, stage):
    ids = [s["id"] for s in spec["stations"]]
    phases = [s["phase"] for s in spec["stations"]]
    M = [list(map(float, r)) for r in spec["schedule"]]
    Mnp = np.array(M, dtype=float)
    T = Mnp.shape[1]
    vt = spec["net_vtol"] if spec["call_vtol"] is None else spec["call_vtol"]
    rt = spec["net_rtol"] if spec["call_rtol"] is None else spec["call_rtol"]
    kw = {}
    if spec["call_vtol"] is not None:
        kw["violation_tolerance"] = spec["call_vtol"]
    if spec["call_rtol"] is not None:
        kw["relative_tolerance"] = spec["call_rtol"]
    rows = _rows(constraints, ids)
    limits = [c["limit"] for c in constraints]
    dict_sched = {}
    for sid in spec["dict_order"]:
        i = ids.index(sid)
        if sid in spec["omit"] and not any(M[i]):
            continue
        vals = list(M[i])
        if sid in spec.get("int_rows", ()):
            # whole-number currents handed over as Python ints (mixed with float rows)
            vals = [int(v) if float(v).is_integer() else v for v in vals]
        dict_sched[sid] = vals
    net_before = (np.array(net.magnitudes, dtype=float), None if net.constraint_matrix is None else np.array(net.constraint_matrix, dtype=float))
    info = iface.infrastructure_info()
    info_before = (np.array(info.constraint_matrix, dtype=float), np.array(info.constraint_limits, dtype=float), np.array(info.phases, dtype=float))
    got = {}
    labels = set()
    modes = (True, False) if spec.get("linear_first") else (False, True)
    signed = bool((Mnp < 0).any())
    if signed:
        # a schedule that feeds current back: the phase-aware statement applies as it stands; the
        # linear relaxation is only specified for non-negative schedules and is not judged
        modes = (False,)
        labels.add("signed_schedule")
    if spec.get("prior_lenient"):
        # an earlier what-if query with generous tolerances (same shape) must not colour later ones
        for linear in modes:
            net.is_feasible(Mnp, linear=linear, violation_tolerance=5.0, relative_tolerance=0.25)
            iface.is_feasible(dict_sched, linear=linear, violation_tolerance=5.0, relative_tolerance=0.25)
            infrastructure_constraints_feasible(Mnp, info, linear=linear, violation_tolerance=5.0, relative_tolerance=0.25)
        labels.add("lenient_query_first")
    for linear in modes:
        want, worst = phasor.verdict(rows, limits, phases, M, vt, rt, linear=linear)
        res = {
            "network": bool(net.is_feasible(Mnp, linear=linear, **kw)),
            "interface": bool(iface.is_feasible(dict_sched, linear=linear, **kw)),
            "algorithm": bool(infrastructure_constraints_feasible(Mnp, info, linear=linear, violation_tolerance=vt, relative_tolerance=rt)),
        }
        if T == 1:
            res["algorithm_1d"] = bool(infrastructure_constraints_feasible(Mnp[:, 0], info, linear=linear, violation_tolerance=vt, relative_tolerance=rt))
        got[linear] = (want, res, worst)
        if want is None:
            rec.count("ambiguous")
            labels.add("ambiguous")
            continue
        for who, r in res.items():
            require(
                r == want,
                "%s_%s_%s" % (who, "linear" if linear else "phasor", "accepts_infeasible" if r else "rejects_feasible"),
                lambda: "%s: %s(linear=%r) returned %r, definition says %r (binding constraint %r period %r margin %.3e, tolerances abs=%r rel=%r)"
                % (stage, who, linear, r, want, constraints[worst[0]]["name"] if worst else None, worst[1] if worst else None, worst[2] if worst else float("nan"), vt, rt),
            )
        if worst is not None:
            tol = phasor.tolerance(limits[worst[0]], vt, rt)
            if abs(worst[2]) <= max(3 * tol, 1e-6) * 1.0001:
                labels.add("near_boundary_linear" if linear else "near_boundary")
        labels.add(("linear_" if linear else "phasor_") + ("feasible" if want else "infeasible"))
    # asking is not telling: a query leaves the description it was given untouched, and the same
    # question asked again (after the other mode was asked) gets the same answer
    require(
        np.array_equal(info_before[0], np.asarray(info.constraint_matrix, dtype=float)) and np.array_equal(info_before[1], np.asarray(info.constraint_limits, dtype=float)) and np.array_equal(info_before[2], np.asarray(info.phases, dtype=float)),
        "query_changed_infrastructure_info",
        lambda: "%s: a feasibility query changed the InfrastructureInfo it was handed (matrix before %r, after %r)" % (stage, info_before[0].tolist(), np.asarray(info.constraint_matrix).tolist()),
    )
    require(
        np.array_equal(net_before[0], np.asarray(net.magnitudes, dtype=float)) and (net_before[1] is None or np.array_equal(net_before[1], np.asarray(net.constraint_matrix, dtype=float))),
        "query_changed_the_network",
        lambda: "%s: feasibility queries changed the network's own limits / matrix (limits before %r, after %r)" % (stage, net_before[0].tolist(), np.asarray(net.magnitudes, dtype=float).tolist()),
    )
    for linear in modes:
        want, res, worst = got[linear]
        if want is None:
            continue
        again = {
            "network": bool(net.is_feasible(Mnp, linear=linear, **kw)),
            "interface": bool(iface.is_feasible(dict_sched, linear=linear, **kw)),
            "algorithm": bool(infrastructure_constraints_feasible(Mnp, info, linear=linear, violation_tolerance=vt, relative_tolerance=rt)),
        }
        for who, r in again.items():
            require(r == want, "%s_%s_%s_when_asked_again" % (who, "linear" if linear else "phasor", "accepts_infeasible" if r else "rejects_feasible"), lambda: "%s: %s(linear=%r) answered %r the second time, definition says %r" % (stage, who, linear, r, want))
    if signed:
        return labels
    # the linear relaxation is conservative (on the definition and on every implementation)
    wl, rl, _ = got[True]
    wp, rp, _ = got[False]
    require(not (wl is True and wp is False), "oracle_conservative", "oracle inconsistency: linear accepts, phasor rejects")
    if wp is not None:
        for who in rl:
            require(not rl[who] or rp[who], "linear_not_conservative_" + who, lambda: "%s: %s accepts the schedule with linear=True but rejects it phase-aware" % (stage, who))
    return labels


def _whatif(spec, iface, constraints, rec):
    """A what-if study on the description object itself: the algorithm-side check is asked, one
    coefficient (or phase) of the SAME InfrastructureInfo is edited in place, and it is asked again
    - the second answer must follow the edited data."""
    ids = [s["id"] for s in spec["stations"]]
    phases = [s["phase"] for s in spec["stations"]]
    M = [list(map(float, r)) for r in spec["schedule"]]
    Mnp = np.array(M, dtype=float)
    if (Mnp < 0).any():
        return set()
    vt = spec["net_vtol"] if spec["call_vtol"] is None else spec["call_vtol"]
    rt = spec["net_rtol"] if spec["call_rtol"] is None else spec["call_rtol"]
    info = iface.infrastructure_info()
    infrastructure_constraints_feasible(Mnp, info, linear=False, violation_tolerance=vt, relative_tolerance=rt)
    w = spec["whatif"]
    rows = _rows(constraints, ids)
    j, i = w["row"] % len(rows), w["col"] % len(ids)
    if w["kind"] == "coeff":
        rows[j][i] = float(w["value"])
        info.constraint_matrix[j, i] = w["value"]
    else:
        phases = list(phases)
        phases[i] = float(w["phase"])
        info.phases[i] = w["phase"]
    limits = [c["limit"] for c in constraints]
    want, worst = phasor.verdict(rows, limits, phases, M, vt, rt, linear=False)
    if want is None:
        rec.count("ambiguous")
        return {"ambiguous"}
    got = bool(infrastructure_constraints_feasible(Mnp, info, linear=False, violation_tolerance=vt, relative_tolerance=rt))
    require(got == want, "algorithm_phasor_%s_after_editing_the_description" % ("accepts_infeasible" if got else "rejects_feasible"), lambda: "after editing %s of the InfrastructureInfo in place the algorithm-side check says %r, the definition on the edited data %r" % (w["kind"], got, want))
    return {"description_edited_in_place"}


def _restore(net, how):
    """The same network after a trip through one of the library's own persistence paths."""
    import copy
    import warnings

    with warnings.catch_warnings():
        warnings.simplefilter("ignore")
        if how == "network_json":
            return ChargingNetwork.from_json(net.to_json())
        if how == "simulator_json":
            from acnportal.algorithms import UncontrolledCharging

            # (a simulator without a scheduler cannot be dumped: to_json() reads scheduler.__module__)
            return Simulator.from_json(Simulator(net, UncontrolledCharging(), EventQueue(), START, verbose=False).to_json()).network
        if how == "deepcopy":
            return copy.deepcopy(net)
    return net


def prop(spec, rec):
    net = build(spec)
    labels = set()
    if spec.get("restore"):
        # a network restored from a JSON dump (its own or its simulator's) or deep-copied is still
        # the network the property speaks about
        net = _restore(net, spec["restore"])
        labels.add("restored_" + spec["restore"])
        labels.add("restored_network")
    sim = Simulator(net, None, EventQueue(), START, verbose=False)
    iface = Interface(sim)
    constraints = [dict(c) for c in spec["constraints"]]
    labels |= _compare(spec, net, iface, constraints, rec, "initial")
    for k, upd in enumerate(spec.get("updates", [])):
        new = {"name": upd["name"], "limit": upd["limit"], "coeffs": upd["coeffs"]}
        net.update_constraint(upd["name"], Current(dict(upd["coeffs"])), upd["limit"])
        constraints = [c for c in constraints if c["name"] != upd["name"]] + [new]
        # name-keyed re-ordering: read the order back from the network
        order = list(net.constraint_index)
        constraints = sorted(constraints, key=lambda c: order.index(c["name"]))
        labels |= {"after_update"}
        labels |= _compare(spec, net, iface, constraints, rec, "after update %d" % (k + 1))
    if spec.get("whatif") and constraints:
        labels |= _whatif(spec, iface, constraints, rec)
    ids = [s["id"] for s in spec["stations"]]
    mixed = any(
        len({(c["coeffs"][i] > 0) for i in c["coeffs"] if c["coeffs"][i] != 0}) == 2
        and any(spec["stations"][ids.index(i)]["phase"] % 360 != 0 for i in c["coeffs"])
        for c in spec["constraints"]
    )
    if mixed:
        labels.add("mixed_sign_with_phases")
    if len(spec["stations"]) >= 2 and len({float(x["phase"]) for x in spec["stations"]}) == 1:
        labels.add("single_angle_site")
        if all(float(x["phase"]) == 0 for x in spec["stations"]):
            labels.add("all_angles_zero")
    if len(spec["schedule"][0]) > 1024:
        labels.add("more_than_1024_periods")
    if len(spec["schedule"][0]) > 1:
        labels.add("multi_period")
        cols = list(zip(*spec["schedule"]))
        if any(a != b and abs(sum(a) - sum(b)) <= 1e-9 * (1 + abs(sum(a))) for a, b in zip(cols, cols[1:])):
            labels.add("equal_total_columns")
    ints = [sid for sid in spec.get("int_rows", ()) if sid not in spec["omit"] or any(spec["schedule"][ids.index(sid)])]
    if ints and len(ints) < len(ids) and any(float(v).is_integer() for sid in ints for v in spec["schedule"][ids.index(sid)]) and any(not float(v).is_integer() for r in spec["schedule"] for v in r):
        labels.add("int_and_float_rows")
    if spec["call_vtol"] is not None or spec["call_rtol"] is not None:
        labels.add("per_call_tolerance")
    if not spec["constraints"]:
        labels.add("no_constraints")
    nt = bool(labels & {"near_boundary", "near_boundary_linear", "mixed_sign_with_phases"})
    rec.case(spec, labels, nt)


# ------------------------------------------------------------------ generator

PHASE = st.one_of(st.sampled_from([0.0, 30.0, -90.0, 150.0, 120.0, -120.0, 180.0]), st.floats(-180, 180).map(lambda x: round(x, 3)))
COEF = st.one_of(st.sampled_from([1.0, -1.0, 0.5, -0.5, 0.25, -0.25, 1.0, 1.0]), st.floats(-2, 2).map(lambda x: round(x, 4)).filter(lambda x: x != 0))
VTOL = st.sampled_from([1e-5, 1e-5, 0.0, 1e-3, 0.5])
RTOL = st.sampled_from([1e-7, 1e-7, 0.0, 1e-3])
NAMES = ["S-q", "S-b", "S-z", "S-a", "S-m", "S-c"]


@st.composite
def network_specs(draw, min_constraints=0):
    n = draw(st.integers(1, 6))
    ids = list(draw(st.permutations(NAMES)))[:n]
    stations = [{"id": i, "phase": draw(PHASE), "max": 1e9} for i in ids]
    one_angle = n >= 2 and draw(st.integers(0, 5)) == 0
    if one_angle:
        # a single-phase site: every station on one angle (0 degrees in half of the cases); the
        # phase-aware magnitude is then |sum a_i s_i| - differential (mixed-sign) rows cancel
        ang = draw(st.sampled_from([0.0, 0.0, 0, 30.0, -90.0, 180.0]))
        for stn in stations:
            stn["phase"] = ang
    m = max(min_constraints, draw(st.sampled_from([0, 1, 1, 2, 2, 3, 3, 4, 5])))
    constraints = []
    for j in range(m):
        members = draw(st.lists(st.sampled_from(ids), min_size=2 if one_angle else 1, max_size=n, unique=True))
        coeffs = {i: draw(COEF) for i in members}
        if one_angle and j == 0:
            # the first row of a single-phase site is a differential one
            k0, k1 = members[0], members[1]
            coeffs[k0], coeffs[k1] = abs(coeffs[k0]), -abs(coeffs[k1])
        limit = draw(st.one_of(st.sampled_from([10.0, 32.0, 80.0, 100.0, 420.0]), st.floats(0.5, 500).map(lambda x: round(x, 3))))
        constraints.append({"name": "con%d" % j, "limit": limit, "coeffs": coeffs})
    return {"stations": stations, "constraints": constraints, "net_vtol": draw(VTOL), "net_rtol": draw(RTOL)}


def _frontier_scale(ns, direction, vt, rt, linear):
    """Smallest s>0 such that s*direction touches limit+tol of some constraint; (s, j)."""
    ids = [s["id"] for s in ns["stations"]]
    phases = [s["phase"] for s in ns["stations"]]
    best = None
    for j, c in enumerate(ns["constraints"]):
        row = [float(c["coeffs"].get(i, 0.0)) for i in ids]
        g = phasor.aggregate_linear(row, direction) if linear else phasor.aggregate(row, phases, direction)
        if g > 1e-9:
            s = (c["limit"] + phasor.tolerance(c["limit"], vt, rt)) / g
            if best is None or s < best[0]:
                best = (s, j, g)
    return best


@st.composite
def cases(draw):
    ns = draw(network_specs())
    n = len(ns["stations"])
    call_vtol = draw(st.one_of(st.none(), st.none(), VTOL))
    call_rtol = draw(st.one_of(st.none(), st.none(), RTOL))
    vt = ns["net_vtol"] if call_vtol is None else call_vtol
    rt = ns["net_rtol"] if call_rtol is None else call_rtol
    T = draw(st.integers(1, 4))
    aim_linear = draw(st.integers(0, 3)) == 0
    direction = [draw(st.one_of(st.just(0.0), st.floats(0.05, 1.0).map(lambda x: round(x, 3)))) for _ in range(n)]
    if not any(direction):
        direction[draw(st.integers(0, n - 1))] = 1.0
    fr = _frontier_scale(ns, direction, vt, rt, aim_linear) if ns["constraints"] else None
    mode = draw(st.sampled_from(["boundary", "boundary", "boundary", "boundary", "random", "signed", "permuted", "whole"]))
    if draw(st.sampled_from([False] * 15 + [True])):
        mode = "long"
    elif draw(st.sampled_from([False] * 24 + [True])):
        mode = "creep"
    if mode == "signed":
        # currents of both signs (a station feeding back): cancellations inside |.| matter
        sched = [[draw(st.one_of(st.just(0.0), st.floats(-64, 64).map(lambda x: round(x, 3)), st.sampled_from([12.0, -12.0, 32.0, -32.0]))) for _ in range(T)] for _ in range(n)]
    elif mode == "whole":
        # whole-number currents (handed to the interface as ints for some stations) next to
        # fractional ones within a fraction of an ampere of a limit
        sched = [[float(draw(st.integers(0, 40))) for _ in range(T)] for _ in range(n)]
        k = draw(st.integers(0, n - 1))
        for t in range(T):
            sched[k][t] = round(draw(st.floats(0, 40)), 2)
    elif fr is not None and mode == "permuted":
        # every column is a permutation of the first (equal totals, different allocation); one of
        # the later columns sits on the frontier
        T = max(T, 2)
        s0, j, g = fr
        c = ns["constraints"][j]
        tol = phasor.tolerance(c["limit"], vt, rt)
        base = [s0 * direction[i] * draw(st.sampled_from([1.0, 0.5, 1.5])) for i in range(n)]
        sched = [[0.0] * T for _ in range(n)]
        for t in range(T):
            perm = list(range(n)) if t == 0 else draw(st.permutations(range(n)))
            for i in range(n):
                sched[i][t] = base[perm[i]]
    elif fr is not None and mode == "creep":
        # a schedule creeping upwards by a few nano-amperes per period for 4 100 periods: it starts
        # 1.2e-5 A inside limit + tolerance of one constraint and ends 1.3e-5 A outside
        T = 4100
        s0, j, g = fr
        c = ns["constraints"][j]
        tol = phasor.tolerance(c["limit"], vt, rt)
        a0, a1 = (c["limit"] + tol - 1.2e-5) / g, (c["limit"] + tol + 1.3e-5) / g
        sched = [[max(0.0, a0 + (a1 - a0) * t / (T - 1)) * direction[i] for t in range(T)] for i in range(n)]
    elif fr is not None and mode == "long":
        # a multi-day horizon: thousands of benign periods and a few on the frontier, one of
        # them near the end
        T = draw(st.sampled_from([1025, 1440, 2049, 2500, 4100]))
        s0, j, g = fr
        c = ns["constraints"][j]
        tol = phasor.tolerance(c["limit"], vt, rt)
        lo = [s0 * 0.5 * direction[i] for i in range(n)]
        sched = [[lo[i]] * T for i in range(n)]
        spots = [T - 1, T - 1 - draw(st.integers(0, 200)), draw(st.integers(0, T - 1))]
        tail_only = draw(st.booleans())
        for t in spots:
            delta = draw(st.sampled_from([3 * tol, -3 * tol, 1e-3 * c["limit"], -1e-3 * c["limit"], 0.5 * c["limit"]]))
            if tail_only:
                # the only overload of the whole horizon sits in its very last period
                delta = abs(delta) if t == T - 1 else -abs(delta)
            sc_ = max(0.0, (c["limit"] + tol + delta) / g)
            for i in range(n):
                sched[i][t] = sc_ * direction[i]
    elif fr is None or mode in ("random", "permuted", "long", "creep"):
        sched = [[draw(st.one_of(st.just(0.0), st.floats(0, 64).map(lambda x: round(x, 3)))) for _ in range(T)] for _ in range(n)]
    else:
        s0, j, g = fr
        c = ns["constraints"][j]
        tol = phasor.tolerance(c["limit"], vt, rt)
        deltas = [3 * tol, -3 * tol, tol / 2, -tol / 2, tol / 100, -tol / 100, 1e-7, -1e-7, 1e-3 * c["limit"], -1e-3 * c["limit"], 5e-7, -5e-7]
        tstar = draw(st.integers(0, T - 1))
        sched = [[0.0] * T for _ in range(n)]
        for t in range(T):
            if t == tstar or draw(st.integers(0, 3)) == 0:
                delta = draw(st.sampled_from(deltas))
                s = max(0.0, (c["limit"] + tol + delta) / g)
            else:
                s = s0 * draw(st.floats(0, 0.9))
            for i in range(n):
                sched[i][t] = s * direction[i]
    ids = [s["id"] for s in ns["stations"]]
    updates = []
    if ns["constraints"] and draw(st.integers(0, 2)) == 0:
        for _ in range(draw(st.integers(1, 2))):
            c = draw(st.sampled_from(ns["constraints"]))
            how = draw(st.sampled_from(["limit_half", "limit_double", "coeffs", "limit_small_step"]))
            new_limit = {"limit_half": c["limit"] / 2, "limit_double": c["limit"] * 2, "coeffs": c["limit"], "limit_small_step": c["limit"] * (1 + draw(st.sampled_from([-1e-3, 1e-3])))}[how]
            coeffs = dict(c["coeffs"])
            if how == "coeffs":
                k = draw(st.sampled_from(sorted(coeffs)))
                coeffs[k] = draw(COEF)
            updates.append({"name": c["name"], "limit": new_limit, "coeffs": coeffs})
    spec = dict(ns)
    spec.update(
        {
            "call_vtol": call_vtol,
            "call_rtol": call_rtol,
            "schedule": sched,
            "omit": draw(st.lists(st.sampled_from(ids), unique=True, max_size=n)),
            "dict_order": list(draw(st.permutations(ids))),
            "updates": updates,
            "linear_first": draw(st.booleans()),
            "restore": draw(st.sampled_from([None, None, None, "network_json", "simulator_json", "deepcopy"])),
            "prior_lenient": draw(st.integers(0, 3)) == 0,
            "int_rows": draw(st.lists(st.sampled_from(ids), unique=True, max_size=n)),
            "whatif": draw(st.one_of(st.none(), st.none(), st.fixed_dictionaries({"kind": st.sampled_from(["coeff", "coeff", "phase"]), "row": st.integers(0, 5), "col": st.integers(0, 5), "value": st.sampled_from([0.0, 1.0, -1.0, 2.0, 0.5]), "phase": st.sampled_from([0.0, 30.0, -90.0, 150.0, 180.0])}))),
        }
    )
    return spec


# ------------------------------------------------------------------ unconstrained networks


def prop_unconstrained(spec, rec):
    net = ChargingNetwork()
    ids = [s["id"] for s in spec["stations"]]
    for s in spec["stations"]:
        net.register_evse(EVSE(s["id"], max_rate=s["max"]), s["voltage"], s["phase"])
    sim0 = Simulator(net, None, EventQueue(), START, verbose=False)
    iface = Interface(sim0)
    M = np.array(spec["schedule"], dtype=float)
    d = {i: list(M[k]) for k, i in enumerate(ids)}
    for linear in (False, True):
        require(bool(net.is_feasible(M, linear=linear)), "unconstrained_network", "network without constraints rejected a schedule")
        require(bool(iface.is_feasible(d, linear=linear)), "unconstrained_interface", "interface rejected a schedule on a network without constraints")
        info = iface.infrastructure_info()
        require(info.constraint_matrix.shape == (0, len(ids)), "unconstrained_info_shape", "constraint matrix shape %r" % (info.constraint_matrix.shape,))
        require(bool(infrastructure_constraints_feasible(M, info, linear=linear)), "unconstrained_algorithm", "algorithm-side check rejected a schedule on a network without constraints")
    # usable by schedulers: every bundled scheduler completes a small simulation
    for algo_name in ("uncontrolled", "greedy", "round_robin"):
        net2 = ChargingNetwork()
        for s in spec["stations"]:
            net2.register_evse(EVSE(s["id"], max_rate=s["max"]), s["voltage"], s["phase"])
        evs = []
        for k, ses in enumerate(spec["sessions"]):
            evs.append(EV(ses["arrival"], ses["departure"], ses["energy"], ids[ses["station"] % len(ids)], "sess-%d" % k, Battery(100, 0, 100)))
        # at most one session per station at a time: keep the first per station
        seen, keep = set(), []
        for ev in evs:
            if ev.station_id not in seen:
                seen.add(ev.station_id)
                keep.append(ev)
        algo = {"uncontrolled": UncontrolledCharging, "greedy": lambda: SortedSchedulingAlgo(first_come_first_served), "round_robin": lambda: RoundRobin(first_come_first_served, continuous_inc=1)}[algo_name]()
        sim = Simulator(net2, algo, EventQueue([PluginEvent(e.arrival, e) for e in keep]), START, period=spec["period"], verbose=False)
        sim.run()
        require(sim.event_queue.empty(), "unconstrained_sim_completes", "%s: queue not empty" % algo_name)
        for e in keep:
            require(e.energy_delivered > 0, "unconstrained_sim_charges", lambda: "%s delivered nothing to %s on an unconstrained network" % (algo_name, e.session_id))
    rec.case(spec, {"unconstrained", "huge" if M.max() > 1e4 else "moderate"}, nontrivial=len(ids) > 1 and M.max() > 100)


@st.composite
def unconstrained_cases(draw):
    n = draw(st.integers(1, 4))
    ids = list(draw(st.permutations(NAMES)))[:n]
    stations = [{"id": i, "phase": draw(PHASE), "max": draw(st.sampled_from([16.0, 32.0, 80.0])), "voltage": draw(st.sampled_from([120.0, 208.0, 240.0]))} for i in ids]
    T = draw(st.integers(1, 3))
    sched = [[draw(st.one_of(st.floats(0, 64), st.floats(0, 1e6))) for _ in range(T)] for _ in range(n)]
    sessions = []
    for _ in range(draw(st.integers(1, 3))):
        a = draw(st.integers(0, 3))
        sessions.append({"arrival": a, "departure": a + draw(st.integers(1, 4)), "energy": draw(st.sampled_from([0.5, 3.0, 20.0])), "station": draw(st.integers(0, 5))})
    return {"stations": stations, "schedule": sched, "sessions": sessions, "period": draw(st.sampled_from([1, 5, 15]))}


def subchecks(tier):
    return [
        Given(
            "three_checkers",
            cases(),
            prop,
            quick=3000,
            thorough=400000,
            floors={"near_boundary": 0.144, "multi_period": 0.269, "near_boundary_linear": 0.08, "after_update": 0.1, "mixed_sign_with_phases": 0.158, "signed_schedule": 0.025, "equal_total_columns": 0.015, "int_and_float_rows": 0.08, "description_edited_in_place": 0.07, "more_than_1024_periods": 0.003, "restored_network": 0.2},
        ),
        Given("unconstrained", unconstrained_cases(), prop_unconstrained, quick=60, thorough=3000, jobs_quick=2),
    ]


def replay(subcheck, spec, rec):
    if subcheck == "unconstrained":
        return prop_unconstrained(spec, rec)
    return prop(spec, rec)
