"""C07 - sorting-based algorithms only emit safe schedules."""
import contextlib
import io
import warnings

import numpy as np
from hypothesis import strategies as st

from .. import scenario as sc
from ..oracles import phasor
from ..runner import Given, require

ID = "C07"
RULE = (
    "Hypothesis generates whole simulations under the sorting-based algorithms: 1-6 stations that "
    "are continuous-from-zero (finite max) or finite-rate (AV-like 0,6..32, CC-like 8..64, "
    "irregular lists, single level), three-phase angles, mixed-sign constraint rows with limits "
    "small enough to bind, default tolerances; sessions with tiny (below one minimum-pilot "
    "period), medium and large requests, session_id != station_id, ideal and two-stage batteries "
    "that throttle; algorithm in {greedy, round-robin} x 5 sort orders x uninterrupted_charging x "
    "estimate_max_rate (SimpleRampdown with generated thresholds) x continuous_inc in "
    "{0.1,0.5,1,2.5} x max_recompute in {1,2,None}; in a third of the constrained cases a constraint "
    "limit is changed (update_constraint) in the middle of the run. A wrapper captures EVERY schedule returned "
    "and the dictionary the estimator returned for that call. Oracle per emitted schedule: (1) "
    "feasible by the exact phasor predicate (guard band 1e-10(1+limit)); (2) every value accepted "
    "by an independent EVSE predicate (interval / level list, 1e-3 A); (3) pilot <= remaining "
    "demand in amp-periods computed from the live EV (+1e-6); (4) with an estimator, pilot <= "
    "max(bound[session_id], EVSE minimum pilot if uninterrupted else 0) + 1e-9; (5) every station "
    "is present, one period long, and stations without an active session get exactly 0. Run "
    "level: no infeasible-schedule warning, no exception (InvalidRateError, ValueError), "
    "energy_delivered <= requested (1+1e-9). Non-trivial = some session is granted less than its "
    "own upper bound (a constraint binds) or an estimator bound below the EVSE maximum is in force."
)
ASSUMPTIONS = [
    "EVSEs are continuous-from-zero with a finite maximum or finite-rate (the property's stated domain); network tolerances are the defaults the algorithms hard-code",
    "schedules whose binding margin lies within 1e-10*(1+limit) of zero are counted as ambiguous, not judged",
]

ATOL, RTOL = 1e-5, 1e-7


def evse_accepts(s, p):
    if s["kind"] == "cont":
        return s.get("min", 0) <= p + 1e-3 and p - 1e-3 <= s["max"]
    levels = [0.0] + [float(r) for r in s["rates"]]
    return any(abs(p - lv) <= 1e-3 for lv in levels)


def make_post(spec, h, stats):
    stations = spec["stations"]
    ids = [s["id"] for s in stations]
    phases = [s["phase"] for s in stations]
    rows = [[float(c["coeffs"].get(i, 0.0)) for i in ids] for c in spec["constraints"]]
    limits = [c["limit"] for c in spec["constraints"]]
    sch = spec["scheduler"]
    period = spec["period"]
    stats["limits"] = limits  # kept current by the observer when a constraint is updated mid-run

    def post(algo, active, out):
        limits = stats["limits"]
        t = algo.interface.current_time
        ctx = "period %d %s/%s" % (t, sch["kind"], sch["sort"])
        require(sorted(out) == sorted(ids), "every_station_in_schedule", lambda: "%s: schedule keys %r" % (ctx, sorted(out)))
        col = []
        for sid in ids:
            v = out[sid]
            require(len(v) == 1, "one_period_schedule", lambda: "%s: station %s schedule %r" % (ctx, sid, v))
            col.append(float(v[0]))
        # (1) feasibility against the definition
        if rows:
            ok, worst = phasor.verdict(rows, limits, phases, [[x] for x in col], ATOL, RTOL)
            if ok is None:
                stats["ambiguous"] += 1
            else:
                require(ok, "emitted_schedule_infeasible", lambda: "%s: schedule %r violates constraint %s by %.6g A" % (ctx, dict(zip(ids, col)), spec["constraints"][worst[0]]["name"], -worst[2]))
        active_by_station = {s.station_id: s for s in active}
        est = getattr(algo.inner, "max_rate_estimator", None) if getattr(algo.inner, "estimate_max_rate", False) else None
        bounds = est.returned[-1] if est is not None and est.returned else None
        for i, sid in enumerate(ids):
            p = col[i]
            s = stations[i]
            # (2) EVSE accepts
            require(evse_accepts(s, p), "pilot_not_accepted_by_evse", lambda: "%s: station %s (%r) given %r A" % (ctx, sid, s, p))
            ses = active_by_station.get(sid)
            if ses is None:
                # (5) nothing for stations without an active session
                require(p == 0, "pilot_for_station_without_active_session", lambda: "%s: station %s has no active session but pilot %r" % (ctx, sid, p))
                continue
            ev = h.evs[ses.session_id]
            rap = (ev.requested_energy - ev.energy_delivered) * 1000.0 / s["voltage"] * 60.0 / period
            # (3) remaining demand
            require(p <= rap + 1e-6, "pilot_exceeds_remaining_demand", lambda: "%s: session %s remaining %r A*periods, pilot %r" % (ctx, ses.session_id, rap, p))
            top = sc.top_level(s)
            own = min(top, rap)
            if bounds is not None:
                b = bounds.get(ses.session_id)
                if b is None:
                    # never shown to the estimator: the session was dropped as finished (remaining
                    # demand below one minimum-pilot period) before the estimator ran, so it gets 0
                    require(p == 0, "pilot_for_session_without_estimator_bound", lambda: "%s: session %s has no estimator bound (%r) but pilot %r" % (ctx, ses.session_id, bounds, p))
                    continue
                floor = 0.0
                if sch.get("uninterrupted"):
                    floor = s.get("min", 0) if s["kind"] == "cont" else min([float(r) for r in s["rates"] if r > 0] or [0.0])
                # (4) estimator bound (or the uninterrupted-charging minimum if that is larger)
                require(p <= max(b, floor) + 1e-9, "pilot_exceeds_estimator_bound", lambda: "%s: session %s bound %r (min pilot floor %r), pilot %r" % (ctx, ses.session_id, b, floor, p))
                if b < top - 1e-9:
                    stats["estimator_active"] += 1
                if b == 0:
                    stats["zero_bound"] += 1
                own = min(own, max(b, floor))
            if p < own - 0.02 - 1e-9 and not (s["kind"] == "finite" and not any(p < float(r) <= own for r in s["rates"])):
                stats["binding"] += 1
        stats["schedules"] += 1

    return post


def make_updater(spec, h, stats):
    """Observer applying the generated mid-run constraint updates (the site operator changes a
    limit while the simulation is running) before the algorithm is asked for a schedule."""
    from acnportal.acnsim import Current

    pending = sorted(spec.get("updates", []), key=lambda u: u["t"])
    cons = {c["name"]: c for c in spec["constraints"]}
    names = [c["name"] for c in spec["constraints"]]

    def observer(algo, active):
        t = algo.interface.current_time
        while pending and pending[0]["t"] <= t:
            u = pending.pop(0)
            c = cons[u["name"]]
            if u.get("look_first", True):
                # the operator looks at the site through the interface, then edits (same period)
                algo.interface.infrastructure_info()
                algo.interface.get_constraints()
                for sid_ in list(h.net.station_ids)[:2]:
                    algo.interface.max_pilot_signal(sid_), algo.interface.evse_voltage(sid_)
            h.net.update_constraint(u["name"], Current(dict(c["coeffs"])), u["limit"])
            lim = list(stats["limits"])
            lim[names.index(u["name"])] = u["limit"]
            stats["limits"] = lim
            stats["updates_applied"] += 1

    return observer


def prop(spec, rec):
    stats = {"ambiguous": 0, "estimator_active": 0, "binding": 0, "schedules": 0, "updates_applied": 0, "zero_bound": 0}
    h = sc.build_sim(spec)
    h.scheduler.post = make_post(spec, h, stats)
    if spec.get("updates"):
        h.scheduler.observer = make_updater(spec, h, stats)
    orig = np.random.normal
    np.random.normal = h.feed
    try:
        with warnings.catch_warnings(record=True) as caught, contextlib.redirect_stdout(io.StringIO()):
            warnings.simplefilter("always")
            h.sim.run()
    finally:
        np.random.normal = orig
    bad = [str(w.message) for w in caught if "Invalid schedule" in str(w.message)]
    require(not bad, "infeasible_schedule_warning", lambda: "simulator warned: %s" % bad[0])
    for s in spec["sessions"]:
        ev = h.evs[s["id"]]
        require(ev.energy_delivered <= ev.requested_energy * (1 + 1e-9) + 1e-12, "delivered_more_than_requested", lambda: "session %s requested %r kWh, delivered %r kWh" % (s["id"], ev.requested_energy, ev.energy_delivered))
    if spec.get("reuse_algorithm"):
        # the same algorithm object drives a second, fresh simulation of the scenario (without the
        # mid-run updates): every schedule it emits there must be safe as well
        spec2 = dict(spec, updates=[])
        stats2 = {"ambiguous": 0, "estimator_active": 0, "binding": 0, "schedules": 0, "updates_applied": 0, "zero_bound": 0}
        h2 = sc.build_sim(spec2, scheduler=sc.Wrapped(h.scheduler.inner))
        h2.scheduler.post = make_post(spec2, h2, stats2)
        np.random.normal = h2.feed
        try:
            with warnings.catch_warnings(record=True) as caught2, contextlib.redirect_stdout(io.StringIO()):
                warnings.simplefilter("always")
                h2.sim.run()
        finally:
            np.random.normal = orig
        bad2 = [str(w.message) for w in caught2 if "Invalid schedule" in str(w.message)]
        require(not bad2, "infeasible_schedule_warning", lambda: "second simulation with the same algorithm object: %s" % bad2[0])
        for s in spec["sessions"]:
            ev = h2.evs[s["id"]]
            require(ev.energy_delivered <= ev.requested_energy * (1 + 1e-9) + 1e-12, "delivered_more_than_requested", lambda: "second simulation: session %s requested %r kWh, delivered %r kWh" % (s["id"], ev.requested_energy, ev.energy_delivered))
        stats["schedules"] += stats2["schedules"]
        stats["ambiguous"] += stats2["ambiguous"]
    labels = sc.scenario_labels(spec)
    sch = spec["scheduler"]
    labels.add("sort_" + sch["sort"])
    if sch.get("uninterrupted"):
        labels.add("uninterrupted")
    if sch.get("estimator"):
        labels.add("estimator")
    if stats["binding"]:
        labels.add("binding_constraint")
    if stats["estimator_active"]:
        labels.add("estimator_bound_below_max")
    if any(s["kind"] == "cont" for s in spec["stations"]):
        labels.add("has_continuous_evse")
    if any(s["kind"] == "finite" for s in spec["stations"]):
        labels.add("has_finite_evse")
    if stats["updates_applied"]:
        labels.add("constraint_updated_mid_run")
    if stats["zero_bound"]:
        labels.add("estimator_bound_exactly_zero")
    if spec.get("reuse_algorithm"):
        labels.add("algorithm_object_reused")
    if spec.get("slow_car"):
        labels.add("car_draws_less_than_the_lowest_level_of_its_station")
    rec.count("schedules", stats["schedules"])
    rec.count("ambiguous", stats["ambiguous"])
    rec.case(spec, labels, bool(stats["binding"] or stats["estimator_active"]))


@st.composite
def cases(draw):
    spec = draw(base_cases())
    if spec["constraints"] and draw(st.integers(0, 2)) == 0:
        last = max(s["departure"] for s in spec["sessions"])
        ups = []
        for _ in range(draw(st.integers(1, 2))):
            c = draw(st.sampled_from(spec["constraints"]))
            ups.append({"t": draw(st.integers(1, max(1, last - 1))), "name": c["name"], "limit": draw(st.sampled_from([8.0, 12.0, 20.0, 33.0, 50.0, 100.0]))})
        spec["updates"] = ups
    spec["reuse_algorithm"] = draw(st.integers(0, 2)) == 0
    if draw(st.integers(0, 3)) == 0:
        # a car whose battery is full long before its (over-stated) request is met keeps drawing
        # 0 A while it is still an active session: with up_increment 0 the rampdown estimator's
        # bound for it is then exactly 0 A
        spec["scheduler"]["estimator"] = {"up": draw(st.sampled_from([1, 0.5, 2])), "down": draw(st.sampled_from([1, 0.5, 3])), "inc": draw(st.sampled_from([0, 0, 0.5]))}
        k = draw(st.integers(0, len(spec["sessions"]) - 1))
        ses = spec["sessions"][k]
        ses["battery"] = {"model": "ideal", "cap": 1.0, "init": draw(st.sampled_from([0.9, 0.999, 1.0])), "maxp": 6.6}
        ses["energy"] = 6.0
    elif draw(st.integers(0, 5)) == 0:
        # a car that draws less than the lowest level of its finite-rate station (an old on-board
        # charger): after two periods the rampdown estimator's bound lies below that level, and
        # with uninterrupted charging the station's minimum pilot is what the car must get
        k = draw(st.integers(0, len(spec["sessions"]) - 1))
        ses = spec["sessions"][k]
        for stn in spec["stations"]:
            if stn["id"] == ses["station"]:
                vlt, ph = stn["voltage"], stn["phase"]
                stn.clear()
                stn.update({"id": ses["station"], "voltage": vlt if float(vlt) >= 208 else 208.0, "phase": ph, "kind": "finite", "rates": draw(st.sampled_from([[0, 8, 16, 24, 32], [8, 16, 24, 32, 40, 48, 56, 64], [0, 6, 7, 8, 9, 10, 12, 16, 20, 24, 28, 32]]))})
        ses["battery"] = {"model": "ideal", "cap": 60.0, "init": 5.0, "maxp": draw(st.sampled_from([0.6, 1.0]))}
        ses["energy"] = 25.0
        ses["departure"] = ses["departure"] + 3
        for other in spec["sessions"]:
            if other is not ses and other["station"] == ses["station"] and other["arrival"] >= ses["arrival"]:
                other["arrival"] += 3
                other["departure"] += 3
                if other.get("est_departure") is not None:
                    other["est_departure"] += 3
        spec["scheduler"]["estimator"] = {"up": draw(st.sampled_from([1, 0.5, 2])), "down": draw(st.sampled_from([1, 0.5])), "inc": draw(st.sampled_from([1, 0.5, 0]))}
        spec["scheduler"]["uninterrupted"] = True
        spec["slow_car"] = True
    return spec


def prop_single_call(spec, rec):
    """One scheduling call on a frozen site (partially served sessions, caller-narrowed session
    bounds, an infrastructure description whose finite level lists may omit the implied 0 A - the
    cases of C08's greedy_session_bounds), judged by C07's clauses only: whatever the greedy
    algorithm returns is feasible for the network, every pilot is one the station accepts (a listed
    level or 0 A; within the station's range), none exceeds the session's remaining demand, and
    stations without an active session get 0 A.  A refusal (ValueError: the sessions' own minimum
    rates are infeasible together) is not a schedule and is not judged here."""
    from acnportal.algorithms import SortedSchedulingAlgo

    from . import c08

    algo = SortedSchedulingAlgo(sc.SORTS[spec["sort"]])
    net, sim, evs = c08.setup(spec, algo)
    algo.register_interface(c08.make_adapter(sim, set(spec["strip_zero"])))
    sessions = algo.interface.active_sessions()
    bounds = {b["id"]: b for b in spec["bounds"]}
    for ses in sessions:
        b = bounds[ses.session_id]
        n = len(ses.min_rates)
        ses.min_rates = np.full(n, float(b["lb"]))
        ses.max_rates = np.full(n, float("inf") if b["ub"] is None else float(b["ub"]))
    ids, ph, A, L, info = c08.oracle_inputs(spec, evs)
    labels = {"single_call", "sort_" + spec["sort"]}
    try:
        out = algo.schedule(sessions)
    except ValueError:
        rec.case(spec, labels | {"refused"}, False)
        return
    require(sorted(out) == sorted(ids), "every_station_in_schedule", lambda: "keys %r" % sorted(out))
    r = [float(out[sid][0]) for sid in ids]
    m = c08.margin(A, L, ph, r)
    if abs(m) < 1e-9:
        rec.case(spec, labels | {"ambiguous"}, False)
        return
    require(m > 0, "emitted_schedule_infeasible", lambda: "schedule %r violates a constraint by %r A (limits %r)" % (dict(zip(ids, r)), -m, L))
    active = {e["i"]: e for e in info if e["rem"] > 1e-3}
    tight = False
    for i, sid in enumerate(ids):
        stn = spec["stations"][i]
        if i not in active:
            require(r[i] == 0, "pilot_for_station_without_active_session", lambda: "station %s got %r A" % (sid, r[i]))
            continue
        if stn["kind"] == "finite":
            ok = r[i] == 0 or any(abs(r[i] - float(a)) <= 1e-9 for a in stn["rates"])
        else:
            ok = -1e-9 <= r[i] <= float(stn["max"]) + 1e-9
        require(ok, "pilot_not_accepted_by_evse", lambda: "station %s (%r) got %r A" % (sid, stn.get("rates", stn.get("max")), r[i]))
        require(r[i] <= active[i]["amp"] + 1e-6 or r[i] <= float(bounds[active[i]["sid"]]["lb"]) + 1e-9, "pilot_exceeds_remaining_demand", lambda: "station %s got %r A, remaining demand %r A*periods" % (sid, r[i], active[i]["amp"]))
        if stn["kind"] == "finite" and r[i] == 0 and stn["id"] in spec["strip_zero"]:
            tight = True
    if spec["strip_zero"]:
        labels.add("level_list_without_zero")
    if tight:
        labels.add("station_without_listed_zero_held_at_0")
    rec.case(spec, labels, tight or m < 1.0)


def base_cases():
    return sc.scenarios(
        kinds=("cont0", "cont0", "finite"),
        scheduler="sorted",
        energies=(0.003, 0.02, 0.3, 1.5, 6.0, 25.0),
        limits=(8.0, 12.0, 20.0, 33.0, 50.0, 100.0, 150.0),
        batteries=sc.battery_specs(noise=False),
        window=4,
    )


def subchecks(tier):
    return [
        Given(
            "safe_schedules",
            cases(),
            prop,
            quick=400,
            thorough=30000,
            floors={"constraint_updated_mid_run": 0.08, "binding_constraint": 0.225, "estimator_bound_below_max": 0.076, "estimator_bound_exactly_zero": 0.009, "uninterrupted": 0.127, "sched_rr": 0.127, "sched_greedy": 0.229, "has_continuous_evse": 0.349, "has_finite_evse": 0.312},
        ),
        Given("single_call", _single_call_cases(), prop_single_call, quick=600, thorough=60000, floors={"level_list_without_zero": 0.15, "station_without_listed_zero_held_at_0": 0.01}),
    ]


def _single_call_cases():
    from . import c08

    return c08.bounds_cases()


def replay(subcheck, spec, rec):
    return (prop_single_call if subcheck == "single_call" else prop)(spec, rec)
