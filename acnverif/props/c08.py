"""C08 - priority allocation: greedy grants the max feasible rate; RR stops when blocked."""
import cmath
import math
from datetime import datetime

import hypothesis
from hypothesis import strategies as st

from acnportal.acnsim import EV, Battery, EventQueue, Simulator
from acnportal.algorithms import RoundRobin, SortedSchedulingAlgo, UncontrolledCharging

from .. import scenario as sc
from ..runner import Given, require

ID = "C08"
RULE = (
    "Hypothesis generates single scheduler invocations: a network of 2-6 stations (continuous-from-"
    "zero and finite-rate EVSEs, unequal voltages and maxima, three-phase angles, 1-4 mixed-sign "
    "constraints with small limits so that several bind at once), a set of connected sessions "
    "partially served through real EV.charge calls, with pairwise distinct arrivals and "
    "estimated departures; the algorithm's schedule(active_sessions()) is called once at period "
    "0. Oracle GREEDY: the order is recomputed from independently evaluated keys (arrival, "
    "-arrival, estimated departure, laxity, -remaining processing time); then, session by "
    "session with earlier grants fixed, continuous EVSEs must get r* = min(ub, min_j r_hi_j) "
    "where r_hi_j solves |c_j + a_j e^{i phi} r| = limit_j + tol in closed form, within "
    "[r* - eps - 1e-6, r* + 1e-6] (eps = 0.01, the algorithm's bisection resolution), and "
    "finite-rate EVSEs exactly the largest level <= ub that the exact phasor predicate accepts. "
    "Oracle ROUND-ROBIN: from the final levels every attempt (round k, session i) is "
    "reconstructed (earlier sessions at min(final,k), later ones at min(final,k-1)); every "
    "successful raise must be feasible and every stop must have its next level infeasible in that "
    "state or absent. UNCONTROLLED: active sessions get exactly the station maximum, nothing "
    "else is scheduled - on single invocations and at EVERY call of whole generated simulations "
    "(one algorithm object across arrivals, departures and satisfied sessions). Near-ties of laxity/processing-time keys (1e-6) and margins within 1e-9 "
    "of zero are discarded / counted. Non-trivial = a constraint binds for a session that is not "
    "last in priority (greedy) or some session is stopped by infeasibility before its own bound (RR)."
)
ASSUMPTIONS = [
    "the invocation is at period 0 with arrivals <= 0 (time-shift invariance is C10's subject)",
    "default network tolerances (the algorithms hard-code 1e-5 / 1e-7); no uninterrupted charging, no estimator",
]

ATOL, RTOL = 1e-5, 1e-7
START = datetime(2020, 3, 1, 8)


class Skip(Exception):
    """The oracle declines to judge this invocation (near-tie of keys, margin within the guard
    band, value on a float boundary)."""


def tol(L):
    return max(ATOL, RTOL * L)


def margin(A, L, ph, r):
    m = math.inf
    for j in range(len(L)):
        z = sum(A[j][i] * r[i] * cmath.exp(1j * math.radians(ph[i])) for i in range(len(r)) if A[j][i] != 0)
        m = min(m, L[j] + tol(L[j]) - abs(z))
    return m


def rmax_cont(A, L, ph, r, i, ub):
    hi = ub
    for j in range(len(L)):
        a = A[j][i]
        if a == 0:
            continue
        c = sum(A[j][k] * r[k] * cmath.exp(1j * math.radians(ph[k])) for k in range(len(r)) if k != i and A[j][k] != 0)
        u = a * cmath.exp(1j * math.radians(ph[i]))
        M = L[j] + tol(L[j])
        b = (c.conjugate() * u).real
        disc = b * b - (a * a) * (abs(c) ** 2 - M * M)
        if disc < 0:
            return -1.0
        hi = min(hi, (-b + math.sqrt(disc)) / (a * a))
    return hi


def setup(spec, algo):
    net = sc.build_network(spec)
    sc._EVSES.pop(id(net), None)
    sim = Simulator(net, algo, EventQueue(), START, period=spec["period"], verbose=False)
    ids = [s["id"] for s in spec["stations"]]
    evs = []
    for s in spec["sessions"]:
        ev = EV(s["arrival"], s["departure"], s["energy"], s["station"], s["id"], Battery(1e6, 0, 1e6), estimated_departure=s["est_departure"])
        V = spec["stations"][ids.index(s["station"])]["voltage"]
        if s["served_amps"] > 0:
            ev.charge(s["served_amps"], V, spec["period"])  # history: partially served
        net.plugin(ev)
        evs.append(ev)
    return net, sim, evs


def oracle_inputs(spec, evs):
    stations = spec["stations"]
    ids = [s["id"] for s in stations]
    ph = [s["phase"] for s in stations]
    A = [[float(c["coeffs"].get(i, 0.0)) for i in ids] for c in spec["constraints"]]
    L = [c["limit"] for c in spec["constraints"]]
    period = spec["period"]
    info = []
    for s, ev in zip(spec["sessions"], evs):
        i = ids.index(s["station"])
        V = stations[i]["voltage"]
        rem_kwh = s["energy"] - s["served_amps"] * V / 1000.0 * (period / 60.0)
        amp = rem_kwh * 1000.0 / V * 60.0 / period
        mx = sc.top_level(stations[i])
        mn = 0.0 if stations[i]["kind"] == "cont" else min([float(r) for r in stations[i]["rates"] if r > 0] or [0.0])
        info.append({"i": i, "sid": s["id"], "rem": rem_kwh, "amp": amp, "mx": mx, "mn": mn, "arr": s["arrival"], "est": s["est_departure"], "V": V})
    return ids, ph, A, L, info


def priority(info, sort, rec, now=0):
    key = {
        "fcfs": lambda e: e["arr"],
        "lcfs": lambda e: -e["arr"],
        "edf": lambda e: e["est"],
        "llf": lambda e: (e["est"] - now) - e["amp"] / e["mx"],
        "lrpt": lambda e: -e["amp"] / e["mx"],
    }[sort]
    active = [e for e in info if e["rem"] > 1e-3]
    ks = sorted(key(e) for e in active)
    if any(b - a < 1e-6 for a, b in zip(ks, ks[1:])):
        rec.count("discarded_key_tie")
        raise Skip("key tie")
    for e in info:
        if abs(e["rem"] - 1e-3) < 1e-6:
            rec.count("discarded_activity_threshold")
            raise Skip("activity threshold")
    return sorted(active, key=key)


def prop_greedy(spec, rec):
    algo = SortedSchedulingAlgo(sc.SORTS[spec["sort"]])
    net, sim, evs = setup(spec, algo)
    out = algo.schedule(algo.interface.active_sessions())
    ids, ph, A, L, info = oracle_inputs(spec, evs)
    require(sorted(out) == sorted(ids), "every_station_in_schedule", lambda: "keys %r" % sorted(out))
    r_out = [float(out[s][0]) for s in ids]
    labels = {"sort_" + spec["sort"], "greedy"}
    try:
        nt = judge_greedy(spec, ids, ph, A, L, info, r_out, rec, labels)
    except Skip as e:
        if str(e) == "ambiguous":
            rec.case(spec, labels | {"ambiguous"}, False)
            return
        hypothesis.assume(False)
    rec.case(spec, labels, nt)


def judge_greedy(spec, ids, ph, A, L, info, r_out, rec, labels, now=0):
    order = priority(info, spec["sort"], rec, now)
    r = [0.0] * len(ids)
    binding_not_last = False
    served = set()
    for pos, e in enumerate(order):
        i = e["i"]
        served.add(i)
        thr = e["mn"] * e["V"] / (60.0 / spec["period"]) / 1000.0
        if abs(e["rem"] - thr) < 1e-9:
            rec.count("discarded_finish_threshold")
            raise Skip("finish threshold")
        if not e["rem"] > thr:
            require(r_out[i] == 0, "finished_session_gets_zero", lambda: "session %s (remaining below one minimum-pilot period) got %r" % (e["sid"], r_out[i]))
            labels.add("session_below_min_pilot_period")
            continue
        ub = min(e["mx"], e["amp"])
        s = spec["stations"][i]
        if s["kind"] == "finite":
            levels = sorted({0.0} | {float(x) for x in s["rates"]})
            best, amb = 0.0, False
            for a in levels:
                if abs(a - ub) < 1e-9 and ub != e["mx"]:
                    amb = True
                if a <= ub:
                    r2 = list(r)
                    r2[i] = a
                    m = margin(A, L, ph, r2)
                    if abs(m) < 1e-9:
                        amb = True
                    if m >= 0:
                        best = max(best, a)
            if amb:
                rec.count("ambiguous")
                raise Skip("ambiguous")
            require(abs(r_out[i] - best) < 1e-9, "greedy_finite_not_largest_feasible_level", lambda: "period %r priority %d session %s (station %s): granted %r, largest feasible level <= %r given earlier grants %r is %r" % (now, pos, e["sid"], ids[i], r_out[i], ub, r, best))
            if best < max([a for a in levels if a <= ub], default=0.0):
                labels.add("constraint_binds")
                if pos < len(order) - 1:
                    binding_not_last = True
        else:
            star = min(ub, rmax_cont(A, L, ph, r, i, ub))
            require(star - 0.01 - 1e-6 <= r_out[i] <= star + 1e-6, "greedy_continuous_not_max_feasible", lambda: "period %r priority %d session %s (station %s): granted %r, maximum feasible %r (own bound %r) given earlier grants %r" % (now, pos, e["sid"], ids[i], r_out[i], star, ub, r))
            if star < ub - 1e-9:
                labels.add("constraint_binds")
                if pos < len(order) - 1:
                    binding_not_last = True
        r[i] = r_out[i]
    for i, sid in enumerate(ids):
        if i not in served:
            require(r_out[i] == 0, "station_without_active_session_gets_zero", lambda: "station %s got %r" % (sid, r_out[i]))
    if sum(1 for j in range(len(L)) if abs(L[j] + tol(L[j]) - abs(sum(A[j][i] * r_out[i] * cmath.exp(1j * math.radians(ph[i])) for i in range(len(ids))))) < 0.05) >= 2:
        labels.add("several_constraints_bind")
    return binding_not_last


def make_adapter(sim, strip):
    import numpy as np

    from acnportal.acnsim.interface import Interface

    class Adapter(Interface):
        def infrastructure_info(self):
            info = super().infrastructure_info()
            for k, sid in enumerate(info.station_ids):
                if sid in strip and not info.is_continuous[k]:
                    info.allowable_pilots[k] = np.array([a for a in info.allowable_pilots[k] if a != 0], dtype=float)
            return info

    return Adapter(sim)


def prop_greedy_bounds(spec, rec):
    """Greedy allocation when the caller narrows sessions with its own min_rates / max_rates (the
    documented SessionInfo fields) and the infrastructure description lists finite levels without
    the implied 0 A: every session still gets the largest allowable pilot within its bounds that is
    feasible next to the higher-priority grants (later sessions waiting at their lower bound), and
    0 A when no listed level fits."""
    import numpy as np

    algo = SortedSchedulingAlgo(sc.SORTS[spec["sort"]])
    net, sim, evs = setup(spec, algo)
    algo.register_interface(make_adapter(sim, set(spec["strip_zero"])))
    sessions = algo.interface.active_sessions()
    bounds = {b["id"]: b for b in spec["bounds"]}
    for ses in sessions:
        b = bounds[ses.session_id]
        n = len(ses.min_rates)
        ses.min_rates = np.full(n, float(b["lb"]))
        ses.max_rates = np.full(n, float("inf") if b["ub"] is None else float(b["ub"]))
    ids, ph, A, L, info = oracle_inputs(spec, evs)
    labels = {"sort_" + spec["sort"], "greedy_bounds"}
    raised = None
    try:
        out = algo.schedule(sessions)
    except ValueError as e:
        raised = e
    try:
        order = priority(info, spec["sort"], rec, 0)
    except Skip:
        hypothesis.assume(False)
    live = []
    for e in order:
        thr = e["mn"] * e["V"] / (60.0 / spec["period"]) / 1000.0
        if abs(e["rem"] - thr) < 1e-9:
            hypothesis.assume(False)
        if e["rem"] > thr:
            b = bounds[e["sid"]]
            e = dict(e, lb=max(0.0, float(b["lb"])), ub=min(e["mx"], e["amp"], float("inf") if b["ub"] is None else float(b["ub"])))
            live.append(e)
    r = [0.0] * len(ids)
    for e in live:
        r[e["i"]] = e["lb"]
    m0 = margin(A, L, ph, r)
    if abs(m0) < 1e-9:
        rec.case(spec, labels | {"ambiguous"}, False)
        return
    if m0 < 0:
        require(raised is not None, "infeasible_lower_bounds_accepted", lambda: "charging every session at its lower bound %r violates a constraint by %r, yet a schedule was returned" % (r, -m0))
        rec.case(spec, labels | {"lower_bounds_infeasible"}, False)
        return
    require(raised is None, "feasible_lower_bounds_refused", lambda: "lower bounds %r are feasible (margin %r) but schedule() raised %r" % (r, m0, raised))
    r_out = [float(out[sid][0]) for sid in ids]
    nt = False
    for pos, e in enumerate(live):
        i = e["i"]
        stn = spec["stations"][i]
        if stn["kind"] == "finite":
            listed = sorted({float(x) for x in stn["rates"]} | (set() if stn["id"] in spec["strip_zero"] else {0.0}))
            if stn["id"] in spec["strip_zero"]:
                listed = [a for a in listed if a != 0]
            allow = [a for a in listed if e["lb"] <= a <= e["ub"]]
            if any(abs(a - e["ub"]) < 1e-9 or abs(a - e["lb"]) < 1e-9 for a in listed if a not in allow) or (e["ub"] != e["mx"] and any(abs(a - e["ub"]) < 1e-9 for a in listed)):
                rec.case(spec, labels | {"ambiguous"}, False)
                return
            best, amb = 0.0, False
            for a in allow:
                r2 = list(r)
                r2[i] = a
                m = margin(A, L, ph, r2)
                if abs(m) < 1e-9:
                    amb = True
                if m >= 0:
                    best = max(best, a)
            if amb:
                rec.case(spec, labels | {"ambiguous"}, False)
                return
            require(abs(r_out[i] - best) < 1e-9, "greedy_finite_not_largest_feasible_level", lambda: "priority %d session %s (station %s, listed levels %r, session bounds [%r, %r]): granted %r, the largest listed level that is feasible next to %r is %r (0 A when none fits)" % (pos, e["sid"], ids[i], listed, e["lb"], e["ub"], r_out[i], r, best))
            if allow and best < max(allow):
                labels.add("constraint_binds")
                nt = nt or pos < len(live) - 1
            if allow and best == 0.0 and 0.0 not in allow:
                labels.add("no_listed_level_fits")
            if not allow:
                labels.add("no_level_within_session_bounds")
        else:
            if e["ub"] < e["lb"] - 1e-12:
                rec.case(spec, labels | {"ambiguous"}, False)
                return
            star = min(e["ub"], rmax_cont(A, L, ph, r, i, e["ub"]))
            require(star - 0.01 - 1e-6 <= r_out[i] <= star + 1e-6 and r_out[i] >= e["lb"] - 1e-9, "greedy_continuous_not_max_feasible", lambda: "priority %d session %s (station %s, session bounds [%r, %r]): granted %r, maximum feasible %r next to %r" % (pos, e["sid"], ids[i], e["lb"], e["ub"], r_out[i], star, r))
            if star < e["ub"] - 1e-9:
                labels.add("constraint_binds")
                nt = nt or pos < len(live) - 1
        r[i] = r_out[i]
    served = {e["i"] for e in live}
    for i, sid in enumerate(ids):
        if i not in served:
            require(r_out[i] == 0, "station_without_active_session_gets_zero", lambda: "station %s got %r" % (sid, r_out[i]))
    if spec["strip_zero"]:
        labels.add("level_list_without_zero")
    if any(b["lb"] > 0 for b in spec["bounds"]):
        labels.add("session_lower_bound")
    if any(b["ub"] is not None for b in spec["bounds"]):
        labels.add("session_upper_bound")
    rec.case(spec, labels, nt)


@st.composite
def bounds_cases(draw):
    spec = draw(cases())
    fin = [x["id"] for x in spec["stations"] if x["kind"] == "finite"]
    spec["strip_zero"] = sorted(draw(st.sets(st.sampled_from(fin), max_size=len(fin)))) if fin else []
    bounds = []
    for ses in spec["sessions"]:
        stn = [x for x in spec["stations"] if x["id"] == ses["station"]][0]
        top = sc.top_level(stn)
        # Sessions on finite-rate stations keep a lower bound of 0: with a positive one the
        # algorithm's fall-back to 0 A (below that bound) can itself break feasibility when phases
        # cancel, and the property says nothing about that case (DESIGN.md section 8.5c).  On a
        # continuous station there is no fall-back: every session waits at its own minimum and is
        # then raised, in priority order, to the largest feasible rate between minimum and bound.
        lb = 0.0
        if stn["kind"] == "cont":
            lb = draw(st.sampled_from([0.0, 0.0, 0.5, 2.0, 6.0, 8.0]))
        ub = draw(st.sampled_from([None, None, top, round(top * 0.6, 2), 9.0, 17.5]))
        if ub is not None and ub < lb:
            ub = None
        bounds.append({"id": ses["id"], "lb": lb, "ub": ub})
    spec["bounds"] = bounds
    if draw(st.integers(0, 3)) == 0:
        # a finely graded station whose table omits the implied 0 A, behind a breaker that leaves
        # less head-room than its lowest level: the largest listed level that fits is none -> 0 A
        ses = draw(st.sampled_from(spec["sessions"]))
        stn = [x for x in spec["stations"] if x["id"] == ses["station"]][0]
        stn.clear()
        stn.update({"id": ses["station"], "voltage": 208.0, "phase": draw(st.sampled_from([30.0, -90.0, 150.0])), "kind": "finite", "rates": draw(st.sampled_from([[6.0 + 0.25 * k for k in range(105)], [8, 16, 24, 32], [6, 12.5, 20]]))})
        if ses["station"] not in spec["strip_zero"]:
            spec["strip_zero"] = sorted(spec["strip_zero"] + [ses["station"]])
        spec["constraints"] = spec["constraints"] + [{"name": "breaker", "limit": draw(st.sampled_from([4.0, 5.5])), "coeffs": {ses["station"]: 1.0}}]
        ses["energy"] = 12.0
        ses["served_amps"] = 0.0
        for b in bounds:
            if b["id"] == ses["id"]:
                # the station is a finite-rate one now: no positive session minimum (see above)
                b["ub"], b["lb"] = None, 0.0
    return spec


def rr_levels(s, ub, inc):
    if s["kind"] == "finite":
        lv = sorted({0.0} | {float(x) for x in s["rates"]})
    else:
        n = int(math.ceil((s["max"] + inc / 2.0) / inc - 1e-12))
        lv = [k * inc for k in range(n)]
    return [a for a in lv if a <= ub + 1e-12]


def prop_rr(spec, rec):
    inc = spec["inc"]
    algo = RoundRobin(sc.SORTS[spec["sort"]], continuous_inc=inc)
    net, sim, evs = setup(spec, algo)
    out = algo.schedule(algo.interface.active_sessions())
    ids, ph, A, L, info = oracle_inputs(spec, evs)
    require(sorted(out) == sorted(ids), "every_station_in_schedule", lambda: "keys %r" % sorted(out))
    r_out = [float(out[s][0]) for s in ids]
    labels = {"sort_" + spec["sort"], "rr", "inc_%s" % inc}
    if len(spec["sessions"]) >= 16:
        labels.add("sixteen_or_more_sessions_queued")
    try:
        blocked = judge_rr(spec, net, ids, ph, A, L, info, r_out, rec, labels)
    except Skip as e:
        if str(e) == "ambiguous":
            rec.case(spec, labels | {"ambiguous"}, False)
            return
        hypothesis.assume(False)
    rec.case(spec, labels, blocked)


def judge_rr(spec, net, ids, ph, A, L, info, r_out, rec, labels, now=0):
    inc = spec["inc"]
    order, levels = [], {}
    for e in priority(info, spec["sort"], rec, now):
        i = e["i"]
        thr = e["mn"] * e["V"] / (60.0 / spec["period"]) / 1000.0
        if abs(e["rem"] - thr) < 1e-9:
            rec.count("discarded_finish_threshold")
            raise Skip("finish threshold")
        if not e["rem"] > thr:
            require(r_out[i] == 0, "finished_session_gets_zero", lambda: "session %s got %r" % (e["sid"], r_out[i]))
            continue
        ub = min(e["mx"], e["amp"])
        # levels within 1e-9 of the bound are a float coin toss between oracle and code
        lv = rr_levels(spec["stations"][i], ub, inc)
        allv = rr_levels(spec["stations"][i], float("inf"), inc)
        if ub != e["mx"] and any(abs(a - ub) < 1e-9 for a in allv):
            rec.count("discarded_level_on_bound")
            raise Skip("level on bound")
        order.append(i)
        levels[i] = lv or [0.0]
    fin = {}
    for i in order:
        lv = levels[i]
        idx = min(range(len(lv)), key=lambda k: abs(lv[k] - r_out[i]))
        require(abs(lv[idx] - r_out[i]) < 1e-6, "rr_output_not_an_allowed_level", lambda: "period %r: station %s got %r, levels within its bound %r" % (now, ids[i], r_out[i], lv[:40]))
        fin[i] = idx
    for i, sid in enumerate(ids):
        if i not in order:
            require(r_out[i] == 0, "station_without_active_session_gets_zero", lambda: "station %s got %r" % (sid, r_out[i]))
    blocked = False
    maxround = max(fin.values(), default=0) + 1
    for k in range(1, maxround + 1):
        for pos, i in enumerate(order):
            if fin[i] < k - 1:
                continue  # dropped in an earlier round
            if k > len(levels[i]) - 1:
                continue  # already at its own top level: no attempt
            state = [0.0] * len(ids)
            for pos2, j in enumerate(order):
                if j == i:
                    state[j] = levels[j][k]
                elif pos2 < pos:
                    state[j] = levels[j][min(fin[j], k)]
                else:
                    state[j] = levels[j][min(fin[j], k - 1)]
            m = margin(A, L, ph, state)
            if abs(m) < 1e-9:
                rec.count("ambiguous")
                raise Skip("ambiguous")
            if fin[i] >= k:
                require(m >= 0, "rr_raise_was_infeasible", lambda: "period %r round %d: raising station %s to %r in state %r violates a constraint by %r" % (now, k, ids[i], levels[i][k], state, -m))
                require(bool(net.is_feasible(_col(state))), "rr_raise_was_infeasible_for_network", "network rejects a reconstructed successful raise")
            else:
                require(m < 0, "rr_stopped_though_next_level_feasible", lambda: "period %r round %d: station %s stopped at %r although raising it to %r is feasible in state %r (margin %r)" % (now, k, ids[i], levels[i][fin[i]], levels[i][k], state, m))
                blocked = True
    if blocked:
        labels.add("stopped_by_infeasibility")
    return blocked


def _col(state):
    import numpy as np

    return np.array(state, dtype=float).reshape(-1, 1)


def prop_uncontrolled(spec, rec):
    algo = UncontrolledCharging()
    net, sim, evs = setup(spec, algo)
    out = algo.schedule(algo.interface.active_sessions())
    ids, ph, A, L, info = oracle_inputs(spec, evs)
    active = {e["i"]: e for e in info if e["rem"] > 1e-3}
    if any(abs(e["rem"] - 1e-3) < 1e-6 for e in info):
        hypothesis.assume(False)
    for i, sid in enumerate(ids):
        if i in active:
            require(sid in out and len(out[sid]) == 1 and float(out[sid][0]) == active[i]["mx"], "uncontrolled_not_station_maximum", lambda: "active station %s: %r, maximum pilot %r" % (sid, out.get(sid), active[i]["mx"]))
        else:
            require(sid not in out or not any(out[sid]), "uncontrolled_schedules_inactive_station", lambda: "station %s without an active session got %r" % (sid, out.get(sid)))
    rec.case(spec, {"uncontrolled"}, len(active) >= 2 and len(active) < len(ids))


def _judge_uncontrolled_run(spec, h, seen):
    ids = [s["id"] for s in spec["stations"]]
    tops = {s["id"]: sc.top_level(s) for s in spec["stations"]}

    def post(algo, active, out):
        t = algo.interface.current_time
        act = {s.station_id for s in active}
        for sid in ids:
            if sid in act:
                require(sid in out and len(out[sid]) == 1 and float(out[sid][0]) == tops[sid], "uncontrolled_not_station_maximum", lambda: "%speriod %d: active station %s scheduled %r, maximum %r" % (seen.get("tag", ""), t, sid, out.get(sid), tops[sid]))
            else:
                require(sid not in out or not any(out[sid]), "uncontrolled_schedules_inactive_station", lambda: "%speriod %d: station %s has no active session but is scheduled %r" % (seen.get("tag", ""), t, sid, out.get(sid)))
                if any(x["station"] == sid and x["departure"] <= t for x in spec["sessions"]):
                    seen["after_departure"] = True
                if any(x["station"] == sid and x["arrival"] <= t < x["departure"] for x in spec["sessions"]):
                    seen["satisfied"] = True
        seen["calls"] += 1

    h.scheduler.post = post
    sc.run_sim(h)


def prop_uncontrolled_sim(spec, rec):
    """The baseline over a whole simulation (one algorithm object, many calls): at every call
    active sessions get exactly their station's maximum and no other station is scheduled.
    With "second_site" the SAME algorithm object then serves a simulation of another site that
    uses the same station ids with other equipment (an experiment loop that builds the algorithm
    once): there, too, every active session must get that site's station maximum."""
    h = sc.build_sim(spec)
    seen = {"calls": 0, "after_departure": False, "satisfied": False}
    _judge_uncontrolled_run(spec, h, seen)
    labels = sc.scenario_labels(spec) | {"uncontrolled_sim"}
    if spec.get("second_site"):
        d = sc.decoy_spec(spec)
        h2 = sc.build_sim(d, scheduler=sc.Wrapped(h.scheduler.inner))
        seen2 = {"calls": 0, "after_departure": False, "satisfied": False, "tag": "second site served by the same algorithm object: "}
        _judge_uncontrolled_run(d, h2, seen2)
        if seen2["calls"]:
            labels.add("algorithm_object_serves_a_second_site")
    if seen["after_departure"]:
        labels.add("call_after_a_departure")
    if seen["satisfied"]:
        labels.add("call_with_satisfied_session_connected")
    rec.count("calls", seen["calls"])
    rec.case(spec, labels, seen["after_departure"] and seen["satisfied"])


def _judge_sorted_run(spec, h, rec, labels, stats):
    stations = spec["stations"]
    ids = [s["id"] for s in stations]
    ph = [s["phase"] for s in stations]
    A = [[float(c["coeffs"].get(i, 0.0)) for i in ids] for c in spec["constraints"]]
    L = [c["limit"] for c in spec["constraints"]]
    sch = spec["scheduler"]
    ctx = {"sort": sch["sort"], "stations": stations, "period": spec["period"], "inc": sch.get("inc", 1)}
    sess = {s["id"]: s for s in spec["sessions"]}

    def post(algo, active, out):
        t = algo.interface.current_time
        r_out = [float(out[sid][0]) for sid in ids]
        info = []
        for sid, s in sess.items():
            if not (s["arrival"] <= t < s["departure"]):
                continue
            i = ids.index(s["station"])
            ev = h.evs[sid]
            V = stations[i]["voltage"]
            rem = ev.requested_energy - ev.energy_delivered
            est = s["est_departure"] if s.get("est_departure") is not None else s["departure"]
            mx = sc.top_level(stations[i])
            mn = 0.0 if stations[i]["kind"] == "cont" else min([float(r) for r in stations[i]["rates"] if r > 0] or [0.0])
            info.append({"i": i, "sid": sid, "rem": rem, "amp": rem * 1000.0 / V * 60.0 / spec["period"], "mx": mx, "mn": mn, "arr": s["arrival"], "est": est, "V": V})
            if est < t and rem > 1e-3:
                stats["past_estimate"] = True
        try:
            if sch["kind"] == "greedy":
                nt = judge_greedy(ctx, ids, ph, A, L, info, r_out, rec, labels, now=t)
            else:
                nt = judge_rr(ctx, h.net, ids, ph, A, L, info, r_out, rec, labels, now=t)
            stats["judged"] += 1
            stats["nt"] = stats["nt"] or nt
        except Skip:
            stats["skipped"] += 1

    rt = spec.get("retune")
    if rt and spec["constraints"]:
        from acnportal.acnsim import Current

        state = {"done": False}

        def observer(algo, active):
            # the operator looks at the site through the interface and then changes one limit -
            # within the period whose allocation follows
            t = algo.interface.current_time
            if state["done"] or t < rt["t"]:
                return
            state["done"] = True
            j = rt["index"] % len(spec["constraints"])
            c = spec["constraints"][j]
            algo.interface.infrastructure_info()
            algo.interface.get_constraints()
            for sid_ in ids[:2]:
                algo.interface.max_pilot_signal(sid_), algo.interface.remaining_amp_periods
            h.net.update_constraint(c["name"], Current(dict(c["coeffs"])), L[j] * rt["factor"])
            L[j] = L[j] * rt["factor"]
            labels.add("limit_changed_mid_run_after_a_look")

        h.scheduler.observer = observer
    h.scheduler.post = post
    sc.run_sim(h)


def prop_sorted_sim(spec, rec):
    """The allocation oracles applied at EVERY call of a whole simulation (one algorithm object,
    one network, partially served and nearly finished sessions, estimated departures already in
    the past): greedy must grant the maximum feasible rate in priority order, round-robin must
    stop only when blocked.  With "second_site" the same algorithm object afterwards serves
    another site with the same station ids (other equipment, voltages, limits) and is judged
    there in the same way."""
    h = sc.build_sim(spec)
    sch = spec["scheduler"]
    stats = {"judged": 0, "skipped": 0, "nt": False, "past_estimate": False}
    labels = sc.scenario_labels(spec) | {"sort_" + sch["sort"]}
    _judge_sorted_run(spec, h, rec, labels, stats)
    if spec.get("second_site"):
        d = sc.decoy_spec(spec)
        d["scheduler"] = dict(sch)  # the object keeps its options
        h2 = sc.build_sim(d, scheduler=sc.Wrapped(h.scheduler.inner))
        before = stats["judged"]
        _judge_sorted_run(d, h2, rec, set(), stats)
        if stats["judged"] > before:
            labels.add("algorithm_object_serves_a_second_site")
    if stats["past_estimate"]:
        labels.add("estimated_departure_already_past")
    rec.count("invocations_judged", stats["judged"])
    rec.count("invocations_skipped", stats["skipped"])
    rec.case(spec, labels, stats["nt"])


@st.composite
def unc_sim_cases(draw):
    spec = draw(sc.scenarios(scheduler="uncontrolled", kinds=("cont0", "deadband", "finite"), noise=False))
    spec["second_site"] = draw(st.booleans())
    return spec


@st.composite
def sim_cases(draw):
    spec = draw(
        sc.scenarios(
            kinds=("cont0", "finite"),
            scheduler="sorted",
            energies=(0.02, 0.3, 1.5, 6.0, 25.0),
            limits=(8.0, 12.0, 20.0, 33.0, 50.0),
            batteries=sc.battery_specs(noise=False),
            window=4,
        )
    )
    sch = spec["scheduler"]
    sch.pop("estimator", None)
    sch["uninterrupted"] = False
    # estimates well before the real departure, so that laxity terms go negative
    for s in spec["sessions"]:
        if draw(st.integers(0, 2)) == 0:
            s["est_departure"] = s["arrival"] + 1
    # distinct arrivals / estimates where possible keep key ties rare; ties are skipped, not judged
    spec["second_site"] = draw(st.integers(0, 2)) == 0
    if draw(st.integers(0, 2)) == 0:
        spec["retune"] = {"t": draw(st.integers(0, 6)), "index": draw(st.integers(0, 5)), "factor": draw(st.sampled_from([0.5, 0.7, 1.5]))}
    return spec


@st.composite
def cases(draw, finite_max=True, large=False):
    n = draw(st.integers(2, 6))
    ids = list(draw(st.permutations(sc.STATION_POOL)))[:n]
    big = large and draw(st.integers(0, 5)) == 0
    if big:
        # a full car park: 16-22 sessions queued at once on three phases
        n = draw(st.sampled_from([16, 18, 18, 21, 21, 22]))
        ids = ["PS-%d" % i for i in draw(st.permutations(range(1, n + 1)))]
    stations = [draw(sc.station_specs(i, ("cont0", "finite"))) for i in ids]
    period = draw(st.sampled_from([1, 5, 15, 7, 8, 2.5]))
    k = n if big else draw(st.integers(1, n))
    chosen = list(draw(st.permutations(range(n))))[:k]
    arrivals = draw(st.lists(st.integers(-30, 0), min_size=k, max_size=k, unique=True))
    # in a third of the cases (nearly) everybody has outstayed the estimate: laxities and deadlines
    # are negative numbers then, and still order the queue
    lo, hi = draw(st.sampled_from([(-12, 40), (-12, 40), (-25, 3)]))
    ests = draw(st.lists(st.integers(lo, hi), min_size=k, max_size=k, unique=True))
    sessions = []
    for j, i in enumerate(chosen):
        s = stations[i]
        energy = round(draw(st.sampled_from([0.02, 0.3, 1.0, 3.0, 12.0])) * (1 + 0.0171 * j), 6)
        full_amp = energy * 1000.0 / s["voltage"] * 60.0 / period
        frac = draw(st.sampled_from([0.0, 0.0, 0.3, 0.9, 0.995]))
        sessions.append({"id": "sess-%d" % j, "station": s["id"], "arrival": min(arrivals[j], ests[j] - 1), "departure": max(ests[j], 0) + draw(st.integers(1, 5)), "est_departure": ests[j], "energy": energy, "served_amps": round(full_amp * frac, 6)})
    m = draw(st.integers(1, 4))
    cons = []
    for j in range(m):
        members = draw(st.lists(st.sampled_from(ids), min_size=n // 2 if big else 1, max_size=n, unique=True))
        coeffs = {i: draw(st.sampled_from([1.0, 1.0, 1.0, -1.0, 0.5, -0.25])) for i in members}
        cons.append({"name": "con-%d" % j, "limit": draw(st.sampled_from([4.0, 7.5, 10.0, 20.0, 33.0, 50.0, 100.0])), "coeffs": coeffs})
    if big and n % 3 == 0 and draw(st.integers(0, 3)) > 0:
        # a wye site with a neutral-conductor limit: balanced currents cancel, a single raise does not
        tri = draw(st.sampled_from([[0.0, -120.0, 120.0], [30.0, -90.0, 150.0]]))
        same = draw(st.sampled_from([[0, 8, 16, 24, 32], [0] + list(range(6, 33))]))
        for q, stn in enumerate(stations):
            vlt, sid_ = stn["voltage"], stn["id"]
            stn.clear()
            # identical equipment on every space: a balanced raise of all phases cancels in the neutral
            stn.update({"id": sid_, "voltage": vlt, "phase": tri[q % 3], "kind": "finite", "rates": list(same)})
        cons = [{"name": "neutral", "limit": draw(st.sampled_from([4.0, 5.5, 7.5])), "coeffs": {i: 1.0 for i in ids}}] + [c for c in cons[:2] if c["limit"] >= 50.0]
        for ses in sessions:
            # everybody still needs hours of charging: the rounds stay balanced
            ses["energy"], ses["served_amps"] = round(40.0 + 0.37 * sessions.index(ses), 3), 0.0
    return {"period": period, "stations": stations, "constraints": cons, "sessions": sessions, "sort": draw(st.sampled_from(sorted(sc.SORTS))), "inc": draw(st.sampled_from([0.1, 0.5, 1, 2.5]))}


def subchecks(tier):
    return [
        Given("greedy", cases(), prop_greedy, quick=1200, thorough=150000, floors={"constraint_binds": 0.172}, min_nontrivial=100),
        Given("greedy_session_bounds", bounds_cases(), prop_greedy_bounds, quick=800, thorough=80000, floors={"level_list_without_zero": 0.15, "session_upper_bound": 0.2, "constraint_binds": 0.1, "no_listed_level_fits": 0.01, "session_lower_bound": 0.1}),
        Given("round_robin", cases(large=True), prop_rr, quick=800, thorough=100000, floors={"stopped_by_infeasibility": 0.15, "sixteen_or_more_sessions_queued": 0.04}),
        Given("sorted_sim", sim_cases(), prop_sorted_sim, quick=250, thorough=20000, floors={"estimated_departure_already_past": 0.1}),
        Given("uncontrolled", cases(), prop_uncontrolled, quick=300, thorough=20000),
        Given("uncontrolled_sim", unc_sim_cases(), prop_uncontrolled_sim, quick=150, thorough=10000, floors={"call_after_a_departure": 0.3, "call_with_satisfied_session_connected": 0.1}),
    ]


def replay(subcheck, spec, rec):
    return {"greedy": prop_greedy, "greedy_session_bounds": prop_greedy_bounds, "round_robin": prop_rr, "uncontrolled": prop_uncontrolled, "uncontrolled_sim": prop_uncontrolled_sim, "sorted_sim": prop_sorted_sim}[subcheck](spec, rec)
