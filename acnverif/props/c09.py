"""C09 - interrupted, serialised and resumed runs equal the uninterrupted run."""
import warnings

import numpy as np
from hypothesis import strategies as st

from acnportal.acnsim import Simulator

from .. import scenario as sc
from ..runner import Given, require

ID = "C09"
RULE = (
    "Hypothesis generates a scenario (all EVSE classes, ideal and two-stage batteries incl. noise "
    "whose generated draws continue across the interruption, extra recompute events so that all "
    "three event types can be pending, schedule history on/off, max_recompute None/1/2/3/7, "
    "scripted / uncontrolled / greedy / round-robin schedulers) and CRASH POINTS = periods in which "
    "the scheduler is invoked (quick: up to 3 drawn, always offering the last period; thorough: "
    "every one), each in two modes: resume in process, or to_json -> from_json -> update_scheduler "
    "-> run. The scheduler raises once at the crash point. Oracle: differential against the "
    "uninterrupted run of the same spec - pilot_signals, charging_rates (exact), delivered "
    "energies, peak, iteration, event history as the ORDERED list of (time,type,session) and, when kept, schedule "
    "history compared numerically by period. After loading and before resuming: for every "
    "connected EV network.get_ev(station) is ev_history[id] is the pending unplug event's ev; the "
    "pending queue has the same (time,type,session) multiset as the interrupted original; a second "
    "load pops its whole queue in non-decreasing (time, unplug<plug-in<recompute) order. In "
    "addition every scenario is dumped and loaded before its first period (the loaded simulator, "
    "given a fresh scheduler, must reproduce the uninterrupted run) and after completion (same "
    "outcome, same dump). In half of the scenarios (two thirds in the thorough tier) ONE run is in addition interrupted two to four times, "
    "in-process resumes and JSON checkpoints mixed, every checkpoint passing the loaded-state clauses, the final "
    "outcome compared with the uninterrupted run. "
    "Non-trivial = at the crash point an EV is connected and an event is pending."
)
ASSUMPTIONS = [
    "the scheduler is a deterministic function of the period and the state it reads; in JSON mode a fresh scripted scheduler (or, for bundled algorithms, the same algorithm object) is handed to update_scheduler",
    "battery noise draws are patched and continue where the interrupted run stopped",
]

RANK = {"Unplug": 0, "Plugin": 1, "Recompute": 2, "": 3}


def outcome(sim):
    hist = sim.schedule_history
    if hist is not None:
        # periods stay integers (a loaded history indexed by "3" instead of 3 is not the same state)
        hist = {(t if isinstance(t, (int, np.integer)) and not isinstance(t, bool) else repr(t)): {k: [float(x) for x in v] for k, v in sch.items()} for t, sch in hist.items()}
    return {
        "pilots": np.array(sim.pilot_signals, dtype=float),
        "rates": np.array(sim.charging_rates, dtype=float),
        "energies": {k: ev.energy_delivered for k, ev in sim.ev_history.items()},
        "peak": sim.peak,
        "iteration": sim.iteration,
        # "the same event history": the processed events in the order they were processed (two
        # arrivals of one period included - the resumed run pops them as the uninterrupted one does)
        "events": [sc.event_key(e) for e in sim.event_history],
        "event_keys": [(e.timestamp, RANK[e.event_type]) for e in sim.event_history],
        "history": hist,
        "queue_empty": sim.event_queue.empty(),
    }


def compare(ref, got, what):
    for k in ("pilots", "rates"):
        require(ref[k].shape == got[k].shape and np.array_equal(ref[k], got[k]), "%s_differ_after_resume" % k, lambda: "%s: %s of the resumed run differ from the uninterrupted run\nuninterrupted\n%r\nresumed\n%r" % (what, k, ref[k], got[k]))
    for k in ("energies", "peak", "iteration", "events", "event_keys", "queue_empty"):
        require(ref[k] == got[k], "%s_differ_after_resume" % k, lambda: "%s: %s uninterrupted %r, resumed %r" % (what, k, ref[k], got[k]))
    require((ref["history"] is None) == (got["history"] is None), "schedule_history_presence", lambda: "%s: schedule history kept %r vs %r" % (what, ref["history"] is not None, got["history"] is not None))
    if ref["history"] is not None:
        require(ref["history"] == got["history"], "schedule_history_differs_after_resume", lambda: "%s: schedule history uninterrupted %r, resumed %r" % (what, ref["history"], got["history"]))


def canonical_dump(js, skip=("scheduler",)):
    """Content of a to_json() dump with every object reference expanded in place (the object
    graph is acyclic), so that two dumps of equal object graphs compare equal whatever ids the
    objects got.  The pending-event heap is compared as a multiset: its internal layout may
    legitimately differ as long as it pops in order (checked separately).  Sharing of objects is
    not visible in this form; it is checked by the identity clauses."""
    import json

    d = json.loads(js)
    ctx = d["context_dict"]

    def walk(x, depth=0):
        if depth > 40:  # pragma: no cover - would mean a reference cycle
            return "<deep>"
        if isinstance(x, str) and x in ctx:
            node = ctx[x]
            attrs = node.get("attributes", {})
            out = {"class": node.get("class"), "attributes": {k: walk(v, depth + 1) for k, v in sorted(attrs.items()) if k not in skip}}
            if str(node.get("class", "")).endswith("EventQueue") and isinstance(out["attributes"].get("_queue"), list):
                out["attributes"]["_queue"] = sorted(out["attributes"]["_queue"], key=lambda e: json.dumps(e, sort_keys=True))
            return out
        if isinstance(x, dict):
            return {k: walk(v, depth + 1) for k, v in sorted(x.items())}
        if isinstance(x, list):
            return [walk(v, depth + 1) for v in x]
        return x

    return walk(d["id"])


def first_difference(a, b, path="root"):
    if type(a) != type(b):
        return "%s: %r vs %r" % (path, a, b)
    if isinstance(a, dict):
        if sorted(a) != sorted(b):
            return "%s: keys %r vs %r" % (path, sorted(a), sorted(b))
        for k in sorted(a):
            r = first_difference(a[k], b[k], path + "." + str(k))
            if r:
                return r
        return None
    if isinstance(a, list):
        if len(a) != len(b):
            return "%s: length %d vs %d" % (path, len(a), len(b))
        for i, (x, y) in enumerate(zip(a, b)):
            r = first_difference(x, y, "%s[%d]" % (path, i))
            if r:
                return r
        return None
    return None if a == b else "%s: %r vs %r" % (path, a, b)


def pending_keys(sim):
    return sorted((ts, e.event_type, e.ev.session_id if hasattr(e, "ev") else None) for ts, e in sim.event_queue.queue)


def check_loaded(what, sim, s2, s3, js):
    """sim: the interrupted original; s2, s3: two simulators loaded from its dump js."""
    # complete state: dumping the loaded object gives the same object graph again
    with warnings.catch_warnings():
        warnings.simplefilter("ignore")
        js2 = s3.to_json()
    diff = first_difference(canonical_dump(js), canonical_dump(js2))
    require(diff is None, "loaded_state_incomplete", lambda: "%s: dump of the loaded simulator differs from the dump it was loaded from at %s" % (what, diff))
    require(s2.iteration == sim.iteration and s2.peak == sim.peak and s2.period == sim.period and s2.start == sim.start, "loaded_scalars", lambda: "%s: iteration/peak/period/start %r vs %r" % (what, (s2.iteration, s2.peak, s2.period, s2.start), (sim.iteration, sim.peak, sim.period, sim.start)))
    require(np.array_equal(s2.pilot_signals, sim.pilot_signals) and np.array_equal(s2.charging_rates, sim.charging_rates), "loaded_matrices", "%s: matrices differ after load" % what)
    require(pending_keys(s2) == pending_keys(sim), "loaded_pending_events", lambda: "%s: pending events %r, original %r" % (what, pending_keys(s2), pending_keys(sim)))
    require([sc.event_key(e) for e in s2.event_history] == [sc.event_key(e) for e in sim.event_history], "loaded_event_history", "%s: event history (already processed events, a list) differs after load" % what)
    require(s2.network.station_ids == sim.network.station_ids, "loaded_station_order", "%s: station order differs after load" % what)
    # shared objects are shared again
    for sid in s2.network.station_ids:
        ev = s2.network.get_ev(sid)
        orig = sim.network.get_ev(sid)
        require((ev is None) == (orig is None), "loaded_occupancy", lambda: "%s: station %s occupancy differs after load" % (what, sid))
        if ev is None:
            continue
        require(ev.session_id == orig.session_id and ev.energy_delivered == orig.energy_delivered, "loaded_ev_state", lambda: "%s: EV at %s differs after load" % (what, sid))
        require(s2.ev_history.get(ev.session_id) is ev, "loaded_ev_shared_with_history", lambda: "%s: EV %s at its station and in ev_history are different objects after load" % (what, ev.session_id))
        unp = [e for _, e in s2.event_queue.queue if e.event_type == "Unplug" and e.ev.session_id == ev.session_id]
        require(len(unp) == 1 and unp[0].ev is ev, "loaded_ev_shared_with_pending_unplug", lambda: "%s: pending unplug of %s does not reference the connected EV object" % (what, ev.session_id))
    # the restored heap still pops in order
    keys = []
    while not s3.event_queue.empty():
        e = s3.event_queue.get_event()
        keys.append((e.timestamp, RANK[e.event_type]))
    require(keys == sorted(keys), "loaded_queue_pops_in_order", lambda: "%s: restored queue pops %r" % (what, keys))


def prop(spec, rec):
    m = sc.Model(spec)
    href = sc.build_sim(spec)
    sc.run_sim(href)
    ref = outcome(href.sim)
    require(ref["iteration"] == m.end, "reference_run_completes", "uninterrupted run did not complete")
    labels = sc.scenario_labels(spec)
    points = spec["crash_points"]
    if points == "all":
        points = [[t, mode] for t in m.invocations for mode in ("resume", "json")]
    nontrivial = False
    # a JSON round trip before the first period and after the last one (no interruption involved)
    if spec.get("json_at_ends", True):
        h0 = sc.build_sim(spec)
        with warnings.catch_warnings():
            warnings.simplefilter("ignore")
            js0 = h0.sim.to_json()
            s0 = Simulator.from_json(js0)
            diff = first_difference(canonical_dump(js0), canonical_dump(s0.to_json()))
        require(diff is None, "loaded_state_incomplete", lambda: "fresh simulator: dump of the loaded object differs at %s" % diff)
        sched0 = sc.make_scheduler(spec)
        s0.update_scheduler(sched0)
        hh = sc.Handle(spec, s0, s0.network, {}, sched0)
        sc.run_sim(hh)
        compare(ref, outcome(s0), "loaded before the first period")
        with warnings.catch_warnings():
            warnings.simplefilter("ignore")
            jse = href.sim.to_json()
            se = Simulator.from_json(jse)
            diff = first_difference(canonical_dump(jse), canonical_dump(se.to_json()))
        require(diff is None, "loaded_state_incomplete", lambda: "completed simulator: dump of the loaded object differs at %s" % diff)
        compare(ref, outcome(se), "loaded after completion")
        labels.add("json_before_start_and_after_end")
    for t, mode in points:
        what = "crash at %d (%s)" % (t, mode)
        h = sc.build_sim(spec, crash_at=t)
        try:
            sc.run_sim(h)
            crashed = False
        except sc.Crash:
            crashed = True
        require(crashed, "harness_crash_point_reached", lambda: "%s: scheduler was not invoked in that period" % what)
        sim = h.sim
        connected = [sid for sid in m.station_ids if h.net.get_ev(sid) is not None]
        if connected and not sim.event_queue.empty():
            nontrivial = True
            labels.add("crash_with_ev_and_pending_event")
        if t == m.last:
            labels.add("crash_at_last_period")
        pend_types = {e.event_type for _, e in sim.event_queue.queue}
        if len(pend_types) == 3:
            labels.add("all_event_types_pending")
        if mode == "json":
            labels.add("json")
            with warnings.catch_warnings():
                warnings.simplefilter("ignore")
                # the checkpoint goes through the returned string, a file or an open buffer
                s2, js = sc.json_roundtrip(sim, Simulator, spec.get("json_via", "string"))
                s3 = Simulator.from_json(js)
            labels.add("json_via_" + spec.get("json_via", "string"))
            check_loaded(what, sim, s2, s3, js)
            if isinstance(h.scheduler, sc.Scripted):
                new_sched = sc.make_scheduler(spec)
            else:
                new_sched = h.scheduler
            s2.update_scheduler(new_sched)
            h2 = sc.Handle(spec, s2, s2.network, dict(s2.ev_history), new_sched)
            h2.feed = h.feed
            sc.run_sim(h2)
            got = outcome(s2)
        else:
            labels.add("resume_in_process")
            sc.run_sim(h)
            got = outcome(sim)
        compare(ref, got, what)
    # one run interrupted several times, checkpoints and in-process resumes mixed
    chain = spec.get("chain") or []
    if chain:
        ts = [t for t, _ in chain]
        h = sc.build_sim(spec, crash_at=set(ts))
        for i, (t, mode) in enumerate(chain):
            what = "interruption %d of %d, at %d (%s)" % (i + 1, len(chain), t, mode)
            try:
                sc.run_sim(h)
                crashed = False
            except sc.Crash:
                crashed = True
            require(crashed, "harness_crash_point_reached", lambda: "%s: scheduler was not invoked in that period" % what)
            if mode == "json":
                with warnings.catch_warnings():
                    warnings.simplefilter("ignore")
                    s2, js = sc.json_roundtrip(h.sim, Simulator, spec.get("json_via", "string"))
                    s3 = Simulator.from_json(js)
                check_loaded(what, h.sim, s2, s3, js)
                if isinstance(h.scheduler, sc.Scripted):
                    new_sched = sc.make_scheduler(spec, crash_at=set(ts[i + 1 :]))
                else:
                    new_sched = h.scheduler
                s2.update_scheduler(new_sched)
                h2 = sc.Handle(spec, s2, s2.network, dict(s2.ev_history), new_sched)
                h2.feed = h.feed
                h = h2
        sc.run_sim(h)
        compare(ref, outcome(h.sim), "run interrupted %d times (%s)" % (len(chain), ", ".join("%d:%s" % (t, md) for t, md in chain)))
        labels.add("interrupted_%s" % ("twice" if len(chain) == 2 else "three_times_or_more" if len(chain) > 2 else "once_chain"))
        if len(chain) >= 2:
            labels.add("interrupted_repeatedly")
            if len({md for _, md in chain}) == 2:
                labels.add("checkpoint_and_in_process_resume_in_one_run")
            if sum(1 for _, md in chain if md == "json") >= 2:
                labels.add("two_checkpoints_in_one_run")
    if spec.get("store_history"):
        labels.add("schedule_history_on")
    if spec["scheduler"].get("estimator"):
        labels.add("sorted_scheduler_with_estimator")
    if any(s["battery"]["model"] != "ideal" and s["battery"].get("noise", 0) > 0 for s in spec["sessions"]):
        labels.add("noise")
    rec.count("crash_points", len(points))
    rec.case(spec, labels, nontrivial)


@st.composite
def cases(draw, all_points=False):
    spec = draw(sc.scenarios())
    if all_points:
        spec["crash_points"] = "all"
    else:
        m = sc.Model(spec)
        # the last period is offered twice when the scheduler is called there (with only a plain
        # event in it, it is not)
        menu = m.invocations + ([m.last, m.last] if m.last in m.invocations else [])
        pts = draw(st.lists(st.tuples(st.sampled_from(menu), st.sampled_from(["resume", "json", "json"])), min_size=1, max_size=3, unique=True))
        spec["crash_points"] = [list(p) for p in pts]
    spec["json_via"] = draw(st.sampled_from(["string", "path", "buffer"]))
    inv = sc.Model(spec).invocations
    if len(inv) >= 2 and draw(st.integers(0, 2 if all_points else 1)) > 0:
        # the same run interrupted two to four times
        k = draw(st.integers(2, min(4, len(inv))))
        idx = sorted(draw(st.lists(st.integers(0, len(inv) - 1), min_size=k, max_size=k, unique=True)))
        if draw(st.booleans()) and inv[-1] not in [inv[i] for i in idx]:
            idx[-1] = len(inv) - 1
        spec["chain"] = [[inv[i], draw(st.sampled_from(["resume", "json", "json"]))] for i in idx]
    if spec["scheduler"]["kind"] in ("greedy", "rr") and draw(st.booleans()):
        # a stateful upper-bound estimator rides along (it holds an interface of its own)
        spec["scheduler"]["estimator"] = {"up": draw(st.sampled_from([1, 0.5, 2])), "down": draw(st.sampled_from([1, 0.5, 3])), "inc": draw(st.sampled_from([1, 0.5, 2]))}
    return spec


def subchecks(tier):
    return [
        Given(
            "interrupt_resume",
            cases(all_points=(tier == "thorough")),
            prop,
            quick=200,
            thorough=6000,
            floors={"json": 0.245, "crash_at_last_period": 0.05, "crash_with_ev_and_pending_event": 0.272, "schedule_history_on": 0.106, "json_via_path": 0.045, "noise": 0.2, "interrupted_repeatedly": 0.12, "two_checkpoints_in_one_run": 0.04},
        )
    ]


def replay(subcheck, spec, rec):
    return prop(spec, rec)
