"""C10 - results are deterministic and independent of incidental ordering."""
import warnings

import hypothesis
import numpy as np
from hypothesis import strategies as st

from acnportal.acnsim import Simulator

from .. import scenario as sc
from ..runner import Given, require

ID = "C10"
RULE = (
    "Hypothesis generates scenarios (2-5 stations; scripted station-keyed and uncontrolled "
    "schedulers on all EVSE classes, greedy and round-robin over the five sort orders with and "
    "without uninterrupted charging on finite-rate EVSEs; constraints whose limits bind; arrivals, "
    "departures and estimated departures distinct by construction so that no sort key ties; noise "
    "off) together with three independent permutations (station registration, constraint "
    "insertion, event insertion) and a shift k in [0,8]. Oracle: (1) the same spec run twice gives "
    "bit-identical matrices, energies and event history, also when the simulator is built through "
    "a JSON dump / load of the fresh object; scripted schedulers optionally steer by "
    "interface.is_feasible; (2) the permuted build gives, per station "
    "id, exactly equal pilots, and rates / energies within 1e-12 relative, peak within 1e-9; (3) "
    "the build with every event shifted by k has k leading zero columns and then the base run's "
    "columns, equal energies, and event times shifted by k (for max_recompute None or 1, or "
    "when the base run's first event is in period 0; otherwise a periodic recompute with period "
    ">= 2 is anchored at period 0 until the first event and is not claimed to shift). "
    "Cases in which the oracle's own laxity / remaining-processing-time keys of two active "
    "sessions come within 1e-6 are discarded (reported). Non-trivial = at least two of the three "
    "permutations are not the identity and some constraint binds (a session gets less than its "
    "own bound)."
)
ASSUMPTIONS = [
    "sorted schedulers run without an upper-bound estimator (its memory of the first two periods is not shift invariant)",
    "sessions' arrivals, departures and estimated departures are pairwise distinct; laxity / processing-time near-ties (1e-6) are discarded",
    "battery noise is off (the order in which stations consume random draws is incidental)",
]


def by_station(h):
    ids = h.net.station_ids
    return {sid: (h.sim.pilot_signals[ids.index(sid)].copy(), h.sim.charging_rates[ids.index(sid)].copy()) for sid in ids}


def tie_observer(spec, hits):
    sort = spec["scheduler"].get("sort")

    def observer(algo, active):
        iface = algo.interface
        if sort in ("llf", "lrpt") and len(active) > 1:
            keys = []
            for s in active:
                k = iface.remaining_amp_periods(s) / iface.max_pilot_signal(s.station_id)
                if sort == "llf":
                    k = (s.estimated_departure - iface.current_time) - k
                keys.append(k)
            keys.sort()
            if any(b - a <= 1e-6 for a, b in zip(keys, keys[1:])):
                hits.append(iface.current_time)

    return observer


def trim(a, n):
    a = np.asarray(a, dtype=float)
    if len(a) >= n:
        return a[:n], a[n:]
    return np.concatenate([a, np.zeros(n - len(a))]), np.zeros(0)


def prop(spec, rec):
    m = sc.Model(spec)
    labels = sc.scenario_labels(spec)
    hits = []
    base = sc.build_sim(spec, observer=tie_observer(spec, hits))
    sc.run_sim(base)
    if hits:
        rec.count("discarded_sort_key_tie")
        hypothesis.assume(False)
    W = m.end
    b = by_station(base)
    e0 = {k: ev.energy_delivered for k, ev in base.evs.items()}

    # (1) determinism
    again = sc.build_sim(spec)
    if spec.get("peek_before_run", True):
        # looking is not touching: the second build is inspected through its interface (sessions,
        # infrastructure, last rates, feasibility of an all-zero schedule) before it is run
        iface = again.scheduler.interface
        iface.active_sessions()
        iface.infrastructure_info()
        iface.last_applied_pilot_signals, iface.last_actual_charging_rate, iface.get_prev_peak()
        iface.is_feasible({sid: [0.0] for sid in again.net.station_ids})
        labels.add("inspected_before_run")
    sc.run_sim(again)
    require(np.array_equal(again.sim.pilot_signals, base.sim.pilot_signals) and np.array_equal(again.sim.charging_rates, base.sim.charging_rates), "same_inputs_different_outputs", "two simulations built from the same spec differ")
    require({k: ev.energy_delivered for k, ev in again.evs.items()} == e0 and again.sim.peak == base.sim.peak, "same_inputs_different_energies", "energies/peak differ between two identical builds")
    require([sc.event_key(e) for e in again.sim.event_history] == [sc.event_key(e) for e in base.sim.event_history], "same_inputs_different_event_history", "event history differs between two identical builds")

    # the same inputs reached through a JSON dump of the freshly built simulator
    fresh = sc.build_sim(spec)
    with warnings.catch_warnings():
        warnings.simplefilter("ignore")
        loaded = Simulator.from_json(fresh.sim.to_json())
    sched = sc.make_scheduler(spec)
    loaded.update_scheduler(sched)
    hl = sc.Handle(spec, loaded, loaded.network, {}, sched)
    sc.run_sim(hl)
    lids = list(loaded.network.station_ids)
    for sid in m.station_ids:
        require(sid in lids, "loaded_station_missing", lambda: "station %s missing after a JSON round trip" % sid)
        lp, _ = trim(loaded.pilot_signals[lids.index(sid)], W)
        lr, _ = trim(loaded.charging_rates[lids.index(sid)], W)
        bp0, _ = trim(b[sid][0], W)
        br0, _ = trim(b[sid][1], W)
        require(np.array_equal(lp, bp0) and np.array_equal(lr, br0), "json_built_simulation_differs", lambda: "station %s: pilots/rates %r / %r after building through JSON, %r / %r directly" % (sid, lp, lr, bp0, br0))
    require({k: ev.energy_delivered for k, ev in loaded.ev_history.items()} == e0, "json_built_simulation_energies", "energies differ when the simulator is built through a JSON dump")

    # ... and through a deep copy of the freshly built simulator (scheduler, network, queue and all)
    if spec.get("deepcopy_path", True):
        import copy

        hc = sc.build_sim(spec)
        with warnings.catch_warnings():
            warnings.simplefilter("ignore")
            csim = copy.deepcopy(hc.sim)
        hcc = sc.Handle(spec, csim, csim.network, {}, csim.scheduler)
        sc.run_sim(hcc)
        require(not hc.sim.event_queue.empty() or not m.events, "deep_copy_shares_state_with_original", "running a deep copy consumed the original simulator's event queue")
        cids = list(csim.network.station_ids)
        for sid in m.station_ids:
            cp, _ = trim(csim.pilot_signals[cids.index(sid)], W)
            cr, _ = trim(csim.charging_rates[cids.index(sid)], W)
            bp0, _ = trim(b[sid][0], W)
            br0, _ = trim(b[sid][1], W)
            require(np.array_equal(cp, bp0) and np.array_equal(cr, br0), "deep_copied_simulation_differs", lambda: "station %s: pilots/rates %r / %r when a deep copy of the fresh simulator is run, %r / %r directly" % (sid, cp, cr, bp0, br0))
        require({k: ev.energy_delivered for k, ev in csim.ev_history.items()} == e0, "deep_copied_simulation_energies", "energies differ when a deep copy of the fresh simulator is run")
        # the original is untouched by the copy's run and still gives the same result
        sc.run_sim(hc)
        require(np.array_equal(hc.sim.pilot_signals, base.sim.pilot_signals) and np.array_equal(hc.sim.charging_rates, base.sim.charging_rates), "deep_copy_shares_state_with_original", "the original simulator gives other results after its deep copy was run")
        labels.add("deep_copy_path")

    # (2) incidental order
    perm = spec["perm"]
    hp = sc.build_sim(spec, station_order=perm["stations"], constraint_order=perm["constraints"], event_order=perm["events"])
    sc.run_sim(hp)
    p = by_station(hp)
    for sid in m.station_ids:
        bp, _ = trim(b[sid][0], W)
        pp, _ = trim(p[sid][0], W)
        require(np.array_equal(bp, pp), "pilots_depend_on_incidental_order", lambda: "station %s pilots %r, after permuting registration/constraint/event order %r" % (sid, bp, pp))
        br, _ = trim(b[sid][1], W)
        pr, _ = trim(p[sid][1], W)
        require(np.allclose(br, pr, rtol=1e-12, atol=1e-12), "rates_depend_on_incidental_order", lambda: "station %s rates %r vs %r" % (sid, br, pr))
    for k, ev in hp.evs.items():
        require(abs(ev.energy_delivered - e0[k]) <= 1e-12 * (1 + abs(e0[k])), "energies_depend_on_incidental_order", lambda: "session %s: %r vs %r kWh" % (k, e0[k], ev.energy_delivered))
    require(abs(hp.sim.peak - base.sim.peak) <= 1e-9 * (1 + base.sim.peak), "peak_depends_on_incidental_order", lambda: "peak %r vs %r" % (base.sim.peak, hp.sim.peak))
    require(sorted(sc.event_key(e) for e in hp.sim.event_history) == sorted(sc.event_key(e) for e in base.sim.event_history), "events_depend_on_incidental_order", "event multiset differs")

    # (3) time shift
    k = spec["shift"]
    # a periodic recompute (max_recompute >= 2) is anchored at period 0 until the first event
    # re-anchors it, so the shift relation is only claimed there when the base run's first event
    # is in period 0
    if spec["scheduler"].get("estimator"):
        labels.add("sorted_scheduler_with_estimator")
    if k and not spec["scheduler"].get("estimator") and (m.max_recompute in (None, 1) or min(m.event_times) == 0):
        hs = sc.build_sim(spec, shift=k)
        sc.run_sim(hs)
        s = by_station(hs)
        require(hs.sim.iteration == base.sim.iteration + k, "shifted_run_length", lambda: "iteration %d, base %d, shift %d" % (hs.sim.iteration, base.sim.iteration, k))
        for sid in m.station_ids:
            for which, name in ((0, "pilots"), (1, "rates")):
                full, _ = trim(s[sid][which], W + k)
                lead, rest = full[:k], full[k:]
                bb, _ = trim(b[sid][which], W)
                require(not lead.any(), "shifted_%s_leading_zero" % name, lambda: "station %s: first %d columns %r" % (sid, k, lead))
                require(np.array_equal(rest, bb), "shifted_%s_equal_base" % name, lambda: "station %s %s shifted by %d: %r, base %r" % (sid, name, k, rest, bb))
        require({kk: ev.energy_delivered for kk, ev in hs.evs.items()} == e0, "shifted_energies", "energies differ after a time shift")
        if m.max_recompute is None:
            # called on events only: the shifted run is asked in exactly the shifted periods
            want_calls = [t + k for t in sorted(base.scheduler.submitted)]
            require(sorted(hs.scheduler.submitted) == want_calls, "shifted_invocations", lambda: "scheduler called in periods %r of the run shifted by %d, base run %r" % (sorted(hs.scheduler.submitted), k, sorted(base.scheduler.submitted)))
        shifted_ev = sorted((e[0] - k, e[1], e[2], e[3]) for e in (sc.event_key(x) for x in hs.sim.event_history))
        base_ev = sorted(sc.event_key(x) for x in base.sim.event_history)
        require(shifted_ev == base_ev, "shifted_event_history", lambda: "event history is not the base history shifted by %d: %r vs %r" % (k, shifted_ev, base_ev))
        labels.add("shifted")
        if k >= 100000:
            labels.add("shifted_by_more_than_100000_periods")

    n = len(m.station_ids)
    nonid = sum([perm["stations"] != list(range(n)), perm["constraints"] != list(range(len(spec["constraints"]))) and len(spec["constraints"]) > 1, perm["events"] != list(range(len(perm["events"]))) and len(perm["events"]) > 1])
    if nonid >= 2:
        labels.add("two_axes_permuted")
    # binding: under a sorted scheduler some active session is granted less than its own bound
    binding = False
    if spec["scheduler"]["kind"] in ("greedy", "rr"):
        ids = m.station_ids
        for t, sch in base.scheduler.submitted.items():
            for sid, s in m.sessions.items():
                if s["arrival"] <= t < s["departure"]:
                    i = ids.index(s["station"])
                    mx = sc.top_level(spec["stations"][i])
                    granted = float(sch.get(s["station"], [0])[0])
                    rem = (s["energy"] - m.ledger(base.sim.charging_rates, sid, t)) * 1000 / spec["stations"][i]["voltage"] * 60 / spec["period"]
                    if rem > 1e-3 and granted < min(mx, rem) - 1e-6:
                        binding = True
    if binding:
        labels.add("binding_constraint")
    if spec["scheduler"].get("by_calls"):
        labels.add("playback_scheduler")
    outlived = 0
    for t in range(W):
        n_out = sum(1 for s in spec["sessions"] if s["arrival"] <= t < s["departure"] and s.get("est_departure") is not None and s["est_departure"] <= t)
        outlived = max(outlived, n_out)
    if outlived >= 2:
        labels.add("two_sessions_past_their_estimate")
    rec.case(spec, labels, nonid >= 2 and (binding or spec["scheduler"]["kind"] in ("scripted", "uncontrolled")))


def early_estimate(draw, a, d, used, soon=False):
    """An estimate between arrival + 1 and the real departure (the driver stays longer than
    announced), distinct from every other session's estimate; with `soon` right after arrival, so
    that the session spends most of its stay past the estimate."""
    e = a + (1 if soon else draw(st.integers(1, max(1, d - a))))
    while e in used:
        e += 1
    used.add(e)
    return e


@st.composite
def cases(draw):
    n = draw(st.integers(2, 6))
    ids = list(draw(st.permutations(sc.STATION_POOL)))[:n]
    kind = draw(st.sampled_from(["scripted", "scripted", "uncontrolled", "greedy", "greedy", "rr", "rr"]))
    kinds = ("finite",) if kind in ("greedy", "rr") else ("cont0", "deadband", "finite")
    stations = [draw(sc.station_specs(i, kinds)) for i in ids]
    # arrivals pairwise distinct, departures pairwise distinct, estimated departures pairwise
    # distinct (no sort key ties), sessions on one station do not overlap, sessions on different
    # stations overlap heavily (contention)
    # "squeeze": a full car park behind one feeder that cannot serve everybody (not even everybody's
    # minimum pilot) - whom the sorted algorithms serve must follow from the sort key alone
    squeeze = kind in ("greedy", "rr") and draw(st.integers(0, 2)) == 0
    crowd = squeeze or draw(st.integers(0, 3)) == 0 or (kind in ("greedy", "rr") and draw(st.booleans()))  # every station busy almost at once
    counts = [draw(st.sampled_from([1, 2] if crowd else [0, 1, 1, 1, 2])) for _ in range(n)]
    if sum(counts) < 2:
        counts[0] = counts[-1] = 1
    total = sum(counts)
    # estimated departures pairwise distinct; in half of the scenarios most of them are EARLIER
    # than the real departure, so that several connected sessions have outlived their estimates
    late = draw(st.booleans())
    ests = draw(st.lists(st.integers(30, 70) if late else st.integers(1, 25), min_size=total, max_size=total, unique=True))
    first_at_zero = draw(st.booleans())
    used_a, used_d, used_e = set(), set(), set()
    sessions = []
    idx = 0
    for s, c in zip(stations, counts):
        t = 0 if (first_at_zero and not sessions) else draw(st.integers(0, 1 if crowd else 5))
        for j in range(c):
            a = t + (draw(st.integers(0, 3)) if j else 0)
            while a in used_a:
                a += 1
            d = a + draw(st.integers(1, 8) if late else st.integers(6 if squeeze else 3, 12))
            while d in used_d:
                d += 1
            used_a.add(a), used_d.add(d)
            sessions.append(
                {
                    "id": "sess-%d" % idx,
                    "station": s["id"],
                    "arrival": a,
                    "departure": d,
                    "energy": round(draw(st.sampled_from([0.3, 1.0, 4.0, 15.0] if late else [4.0, 15.0, 30.0])) * (1 + 0.0137 * idx), 6),
                    "est_departure": ests[idx] if late else early_estimate(draw, a, d, used_e, soon=squeeze),
                    "battery": draw(sc.battery_specs(noise=False)),
                }
            )
            idx += 1
            t = d
    demand = sum(sc.top_level(s) for s in stations)
    cons = draw(sc.constraint_lists(stations, 3, limits=(8.0, 12.0, 20.0, 30.0) + tuple(round(demand * f, 3) for f in (0.2, 0.4, 1.0, 2.0))))
    if squeeze:
        cons = cons + [{"name": "feeder", "limit": draw(st.sampled_from([8.0, 12.0, 20.0, 33.0])), "coeffs": {i: 1.0 for i in ids}}]
    if kind == "scripted":
        sch = draw(sc.scripted_schedulers(stations))
        sch["probe"] = draw(st.integers(0, 3)) > 0
        if draw(st.integers(0, 5)) == 0:
            sch["max_recompute"] = None
        if sch.get("max_recompute") is None and draw(st.booleans()):
            sch["by_calls"] = True  # the n-th call returns the n-th entry (playback)
        if sch["probe"]:
            # schedules that name every station (in their own order) and are judged by
            # interface.is_feasible before being submitted
            sch["table"] = draw(st.lists(sc.schedule_entries(stations, max_len=2, empty_ok=False, full=True), min_size=1, max_size=4))
    elif kind == "uncontrolled":
        sch = {"kind": "uncontrolled", "max_recompute": draw(st.sampled_from([1, 1, 2, 3]))}
    else:
        sch = draw(sc.sorted_schedulers(estimator=False, kinds=(kind,), mr=(1, 1, 1, 2, 3)))
        if not late and draw(st.booleans()):
            sch["sort"] = "edf"  # the order that reads the (outlived) estimates
        if squeeze:
            sch["uninterrupted"] = draw(st.booleans())
            if not late:
                sch["sort"] = draw(st.sampled_from(["edf", "edf", "llf"]))
        if draw(st.integers(0, 2)) == 0:
            # a rampdown estimator rides along: it pairs every session with the pilot and the
            # rate of the previous period, whatever order stations and sessions are listed in
            # (the time-shift relation is not claimed for it, DESIGN.md section 5)
            sch["estimator"] = {"up": draw(st.sampled_from([1, 0.5, 2])), "down": draw(st.sampled_from([1, 0.5, 3])), "inc": draw(st.sampled_from([1, 0.5, 2]))}
    last = max(s["departure"] for s in sessions)
    recomputes = draw(st.lists(st.integers(0, last + 2), max_size=2))
    nev = len(sessions) + len(recomputes)
    return {
        "period": draw(sc.PERIODS),
        "start": "2020-03-01T08:00:00",
        "stations": stations,
        "constraints": cons,
        "sessions": sessions,
        "recomputes": recomputes,
        "event_order": list(range(nev)),
        "bulk_add": True,
        "scheduler": sch,
        "zs": [0.0],
        "store_history": False,
        "perm": {"stations": list(draw(st.permutations(range(n)))), "constraints": list(draw(st.permutations(range(len(cons))))), "events": list(draw(st.permutations(range(nev))))},
        # k >= 0 without an upper end: now and then a shift beyond 100 000 periods (a year of 5-minute
        # steps), on schedulers that are only asked when something happens (the 100 000 idle periods
        # are simulated one by one)
        "shift": draw(st.integers(0, 8)),
    }


@st.composite
def far_cases(draw):
    """k >= 0 has no upper end: a small scenario under a scheduler that is only asked when something
    happens (max_recompute None), shifted by more than 100 000 periods - a year of 5-minute steps.
    The idle periods in front are simulated one by one, hence a sub-check of its own with a fixed,
    small number of cases."""
    for _ in range(20):
        spec = draw(cases())
        if spec["scheduler"]["kind"] == "scripted":
            break
    spec["scheduler"]["max_recompute"] = None
    spec["scheduler"].pop("probe", None)
    spec["shift"] = draw(st.sampled_from([100003, 131077, 250001]))
    spec["peek_before_run"] = False
    return spec


def subchecks(tier):
    return [
        Given(
            "order_and_shift",
            cases(),
            prop,
            quick=600,
            thorough=30000,
            floors={"two_axes_permuted": 0.3, "binding_constraint": 0.1, "shifted": 0.2, "sched_greedy": 0.089, "sched_rr": 0.092, "two_sessions_past_their_estimate": 0.1, "playback_scheduler": 0.005, "sorted_scheduler_with_estimator": 0.06},
        ),
        Given("far_shift", far_cases(), prop, quick=6, thorough=160, floors={"shifted_by_more_than_100000_periods": 0.5}, jobs_quick=3),
    ]


def replay(subcheck, spec, rec):
    return prop(spec, rec)
