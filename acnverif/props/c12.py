"""C12 - constraint matrix, limits and names stay aligned under add/remove/update."""
import cmath
import math
import warnings
from fractions import Fraction as F

import numpy as np
import pandas as pd
from hypothesis import strategies as st
from hypothesis.stateful import initialize, precondition, rule

from acnportal.acnsim import EVSE, ChargingNetwork, Current
from acnportal.acnsim.network.charging_network import EVSERegistrationError

from ..runner import Machine, require
from ..stateful import LoggedMachine

ID = "C12"
RULE = (
    "Hypothesis rule-based state machine over a ChargingNetwork: register_evse (ids registered "
    "in non-sorted order; once constraints exist it must raise EVSERegistrationError and change "
    "nothing), add_constraint(expr, limit, name), add_constraint naming an unregistered station "
    "(KeyError, nothing changes), remove_constraint (existing / unknown -> KeyError), "
    "update_constraint (with and without new_name; unknown -> KeyError), and queries "
    "constraint_current(M, constraints=subset in random order, time_indices=subset, linear on/off), "
    "and a JSON round trip after which the history continues on the restored network. expr is a "
    "generated EXPRESSION TREE over leaves Current(dict | str | list | Series | empty) with +, -, left / "
    "right scalar *, nested to depth 3, listing stations in an order unrelated to registration. "
    "Constraints are added under fresh, re-used, auto-assigned (name=None) and colliding names. "
    "Oracle: a multiset model of (name, limit, row) entries whose coefficients are "
    "evaluated in exact rational arithmetic. After EVERY step: constraints_as_df, "
    "constraint_matrix, magnitudes and constraint_index have as many rows as the model; columns "
    "are the registration order; for every row i, constraint_index[i] is a model name (each once) "
    "and row i / limit i equal that constraint's coefficients (0 where absent, 1e-12, no NaN) and "
    "limit. Row position is read back, never predicted. Queries equal the model's phasor sums for "
    "rows(subset, network order) x columns(time_indices), and is_feasible agrees with the model's "
    "margins when they are clear of zero. The replay file is the op log. Non-trivial = a remove or "
    "update after >= 2 adds and an expression with a scalar multiple as operand of +/-."
)
ASSUMPTIONS = [
    "auto-assigned and colliding names are read back, never predicted; the model is a multiset, so which of two equally named constraints a removal hits is left open",
    "a list leaf naming a station twice has no specified coefficient: its row is read back (alignment with name and limit is still judged) and a failing add must leave no trace",
    "coefficients are dyadic rationals so that the rational model is exact in floating point",
]

POOL = ["zeta", "alpha", "mid", "beta", "omega", "kappa"]


class State:
    def __init__(self):
        self.net = ChargingNetwork()
        self.stations = []  # registration order
        self.phases = {}
        # the model is a MULTISET of entries {"name", "limit", "row"} (row = coefficients in
        # registration order): names may repeat (auto-naming gives "x_v2" twice), and which of two
        # equally named constraints a removal hits is not specified
        self.entries = []
        self.adds = 0
        self.mutations_after_two_adds = 0
        self.scalar_in_sum = False
        self.queries = 0
        self.rejected = 0
        self.counter = 0
        self.json = 0
        self.linear_queries = 0
        self.removed = set()
        self.reused = 0
        self.auto_named = 0
        self.duplicate_names = 0
        self.removed_duplicate = 0
        self.used_currents = []
        self.reused_objects = 0
        self.strict_aborts = 0

    @property
    def model(self):  # names currently present (with repetitions)
        return [e["name"] for e in self.entries]


# ---------------------------------------------------------------- expression trees


def build_expr(tree):
    """-> (Current, {station: Fraction}, uses_scalar_multiple_inside_sum)"""
    if "leaf" in tree:
        k = tree["leaf"]
        if k == "dict":
            d = {s: tree["coeffs"][s] for s in tree["order"]}
            return Current(d), {s: F(str(v)) for s, v in d.items()}, False
        if k == "str":
            return Current(tree["id"]), {tree["id"]: F(1)}, False
        if k == "list":
            return Current(list(tree["ids"])), {s: F(1) for s in tree["ids"]}, False
        if k == "empty":
            return (Current([]) if tree.get("how") == "list" else Current()), {}, False
        if k == "series":
            d = {s: tree["coeffs"][s] for s in tree["order"]}
            return Current(pd.Series(d)), {s: F(str(v)) for s, v in d.items()}, False
        raise ValueError(k)
    op = tree["op"]
    if op in ("add", "sub"):
        a, ma, fa = build_expr(tree["a"])
        b, mb, fb = build_expr(tree["b"])
        keys = list(ma) + [k for k in mb if k not in ma]
        sgn = 1 if op == "add" else -1
        flag = fa or fb or tree["a"].get("op") in ("lmul", "rmul") or tree["b"].get("op") in ("lmul", "rmul")
        return (a + b if op == "add" else a - b), {k: ma.get(k, 0) + sgn * mb.get(k, 0) for k in keys}, flag
    a, ma, fa = build_expr(tree["a"])
    c = tree["c"]
    return (c * a if op == "lmul" else a * c), {k: v * F(str(c)) for k, v in ma.items()}, fa


COEF = st.sampled_from([1, -1, 2, 0.5, -0.25, 3, 0.125, -2])
SCALAR = st.sampled_from([2, 0.5, 0.25, -1, 3, -0.5])


def leaves(ids):
    sub = st.lists(st.sampled_from(ids), min_size=1, max_size=len(ids), unique=True)

    def dict_leaf(kind):
        return sub.flatmap(lambda order: st.fixed_dictionaries({s: COEF for s in order}).map(lambda co: {"leaf": kind, "order": list(order), "coeffs": co}))

    return st.one_of(
        dict_leaf("dict"),
        dict_leaf("dict"),
        st.sampled_from(ids).map(lambda s: {"leaf": "str", "id": s}),
        sub.map(lambda o: {"leaf": "list", "ids": list(o)}),
        sub.map(lambda o: {"leaf": "list", "ids": list(o) + [o[0]]}),  # a station listed twice
        dict_leaf("series"),
        st.sampled_from([{"leaf": "empty", "how": "list"}, {"leaf": "empty", "how": "none"}]),
    )


def exprs(ids):
    return st.recursive(
        leaves(ids),
        lambda inner: st.one_of(
            st.tuples(st.sampled_from(["add", "sub"]), inner, inner).map(lambda t: {"op": t[0], "a": t[1], "b": t[2]}),
            st.tuples(st.sampled_from(["lmul", "rmul"]), SCALAR, inner).map(lambda t: {"op": t[0], "c": t[1], "a": t[2]}),
        ),
        max_leaves=6,
    )


# ---------------------------------------------------------------- model checking


def snapshot(net):
    return (
        list(net.station_ids),
        None if net.constraint_matrix is None else np.array(net.constraint_matrix, dtype=float).copy(),
        np.array(net.magnitudes, dtype=float).copy(),
        list(net.constraint_index),
    )


def same(a, b):
    if a[0] != b[0] or a[3] != b[3]:
        return False
    if (a[1] is None) != (b[1] is None):
        return False
    if a[1] is not None and (a[1].shape != b[1].shape or not np.array_equal(a[1], b[1], equal_nan=True)):
        return False
    return a[2].shape == b[2].shape and np.array_equal(a[2], b[2])


def has_repeated_ids(tree):
    if "leaf" in tree:
        return tree["leaf"] == "list" and len(set(tree["ids"])) < len(tree["ids"])
    return has_repeated_ids(tree["a"]) or ("b" in tree and has_repeated_ids(tree["b"]))


def row_of(co, stations):
    return [float(co.get(s, 0)) for s in stations]


def triple(name, limit, row):
    return (name, float(limit), tuple(round(float(x), 12) for x in row))


def net_triples(net):
    if net.constraint_matrix is None:
        return []
    M = np.asarray(net.constraint_matrix, dtype=float).reshape(len(net.constraint_index), -1) if len(net.constraint_index) else np.zeros((0, len(net.station_ids)))
    return [triple(net.constraint_index[i], net.magnitudes[i], M[i]) for i in range(len(net.constraint_index))]


def check(state, entries=None, quiet=False):
    """Alignment invariant.  With `entries` given and quiet=True returns True/False instead of
    raising (used to find out which of several equally named constraints an operation hit)."""
    net, stns = state.net, state.stations
    entries = state.entries if entries is None else entries

    def need(cond, clause, msg):
        if quiet:
            return cond
        require(cond, clause, msg)
        return True

    if not need(list(net.station_ids) == stns, "station_order", lambda: "station_ids %r, registered %r" % (net.station_ids, stns)):
        return False
    names = list(net.constraint_index)
    if not need(len(names) == len(entries) and sorted(names) == sorted(e["name"] for e in entries), "constraint_names", lambda: "constraint_index %r, model %r" % (names, sorted(e["name"] for e in entries))):
        return False
    if not need(len(net.magnitudes) == len(entries), "limits_length", lambda: "%d limits for %d constraints: %r" % (len(net.magnitudes), len(entries), list(net.magnitudes))):
        return False
    if net.constraint_matrix is None:
        return need(not entries, "matrix_missing", "constraint_matrix is None although constraints exist")
    M = np.asarray(net.constraint_matrix, dtype=float)
    if not need(M.shape == (len(entries), len(stns)), "matrix_shape", lambda: "matrix shape %r for %d constraints x %d stations" % (M.shape, len(entries), len(stns))):
        return False
    if not need(not np.isnan(M).any(), "coefficient_of_row", lambda: "NaN in the constraint matrix %r" % (M,)):
        return False
    got = sorted(net_triples(net))
    want = sorted(triple(e["name"], e["limit"], e["row"]) for e in entries)
    if got != want:
        if quiet:
            return False
        # say which kind of misalignment it is
        for i, nm in enumerate(names):
            cands = [e for e in entries if e["name"] == nm]
            require(any(float(net.magnitudes[i]) == e["limit"] for e in cands), "limit_of_row", lambda: "row %d (%s): limit %r, model has %r under that name" % (i, nm, net.magnitudes[i], [e["limit"] for e in cands]))
            require(any(triple(nm, net.magnitudes[i], M[i]) == triple(e["name"], e["limit"], e["row"]) for e in cands), "coefficient_of_row", lambda: "constraint %s: matrix row %r (stations %r), the expression evaluates to %r" % (nm, list(M[i]), stns, [e["row"] for e in cands]))
        require(False, "rows_names_limits_misaligned", lambda: "network holds %r, model %r" % (got, want))
    if entries and not quiet:
        df = net.constraints_as_df()
        require(list(df.index) == names and list(df.columns) == stns, "df_labels", lambda: "df index %r columns %r" % (list(df.index), list(df.columns)))
        require(np.array_equal(np.asarray(df.to_numpy(), dtype=float), M, equal_nan=True), "df_content", "constraints_as_df differs from constraint_matrix")
    return True


def aligned_rows(state):
    """Model row for every network position (the check has passed, so they are equal)."""
    return [list(np.asarray(state.net.constraint_matrix, dtype=float)[i]) for i in range(len(state.net.constraint_index))]


def settle_removal(state, name, extra=None):
    """After the network removed ONE constraint called `name` (and possibly added `extra`), find
    the model entry that went."""
    cands = [k for k, e in enumerate(state.entries) if e["name"] == name]
    for k in cands:
        trial = [e for kk, e in enumerate(state.entries) if kk != k] + ([extra] if extra else [])
        if check(state, trial, quiet=True):
            state.entries = trial
            return
    # none fits: report through the ordinary check against the first candidate
    state.entries = [e for kk, e in enumerate(state.entries) if kk != cands[0]] + ([extra] if extra else [])
    check(state)


def new_name_after_add(state, before_names):
    after = list(state.net.constraint_index)
    extra = list(after)
    for nm in before_names:
        if nm in extra:
            extra.remove(nm)
    require(len(after) == len(before_names) + 1 and len(extra) == 1, "constraint_names", lambda: "add_constraint turned names %r into %r" % (before_names, after))
    return extra[0]


def apply_op(state, op):
    net = state.net
    kind = op["op"]
    with warnings.catch_warnings():
        warnings.simplefilter("ignore")
        if kind == "register":
            before = snapshot(net)
            if state.entries:
                try:
                    net.register_evse(EVSE(op["id"], max_rate=32), 208, op["phase"])
                    ok = True
                except EVSERegistrationError:
                    ok = False
                require(not ok, "late_registration_accepted", lambda: "register_evse(%r) accepted after constraints exist" % op["id"])
                require(same(before, snapshot(net)), "late_registration_changed_state", "a rejected registration changed the network")
                state.rejected += 1
            elif op["id"] not in state.stations:
                try:
                    net.register_evse(EVSE(op["id"], max_rate=32), 208, op["phase"])
                except EVSERegistrationError:
                    # all constraints were removed again: the property only says registration is
                    # refused while constraints exist; refusing afterwards too is not judged
                    require(state.adds > 0, "registration_refused_without_constraints", "register_evse refused although no constraint was ever added")
                    require(same(before, snapshot(net)), "late_registration_changed_state", "a rejected registration changed the network")
                    return
                state.stations.append(op["id"])
                state.phases[op["id"]] = op["phase"]
        elif kind == "add":
            if not state.stations:
                return
            cur, co, flag = build_expr(op["expr"])
            if op.get("reuse_object") is not None and state.used_currents:
                # the very Current object of an earlier add (the caller kept it) is handed in again
                cur, co, flag, _tree = state.used_currents[op["reuse_object"] % len(state.used_currents)]
                op = dict(op, expr=_tree)
                state.reused_objects += 1
            before_names = list(net.constraint_index)
            adopt = has_repeated_ids(op["expr"])
            before = snapshot(net)
            state.used_currents.append((cur, co, flag, op["expr"]))
            if op.get("strict"):
                # the caller runs with warnings turned into errors (python -W error): the
                # "name already taken" warning then aborts the add, which must leave no trace
                try:
                    with warnings.catch_warnings():
                        warnings.simplefilter("error")
                        net.add_constraint(cur, op["limit"], name=op["name"])
                    aborted = False
                except UserWarning:
                    aborted = True
                except Exception:
                    if not adopt:
                        raise
                    aborted = True
                if aborted:
                    require(same(before, snapshot(net)), "rejected_add_changed_state", lambda: "an add_constraint aborted by a warning-as-error changed the network: %d limits, names %r, matrix rows %r" % (len(net.magnitudes), net.constraint_index, None if net.constraint_matrix is None else len(net.constraint_matrix)))
                    state.rejected += 1
                    state.strict_aborts += 1
                    return
                op = dict(op, strict=False)
                # fall through: the add went through, judge it like any other
                got_name = new_name_after_add(state, before_names)
                row = row_of(co, state.stations)
                if adopt:
                    pos = [k for k, nm in enumerate(net.constraint_index) if nm == got_name and float(net.magnitudes[k]) == float(op["limit"])]
                    require(bool(pos), "limit_of_row", lambda: "no row named %r with limit %r after add" % (got_name, op["limit"]))
                    row = list(np.asarray(net.constraint_matrix, dtype=float)[pos[-1]])
                state.entries.append({"name": got_name, "limit": op["limit"], "row": row})
                state.adds += 1
                return
            try:
                net.add_constraint(cur, op["limit"], name=op["name"])
            except Exception:
                if not adopt:
                    raise
                # a list naming a station twice has no specified meaning: the call may fail, but
                # then it must not leave anything behind
                require(same(before, snapshot(net)), "rejected_add_changed_state", lambda: "a failed add_constraint changed the network: limits %r names %r" % (list(net.magnitudes), net.constraint_index))
                state.rejected += 1
                return
            got_name = new_name_after_add(state, before_names)
            if op["name"] is None:
                state.auto_named += 1
                # an unnamed constraint is numbered by its position: "_const_<number of constraints
                # before it>" (with the collision suffix if that name is taken) - whatever the
                # Current object has been used for before
                base = "_const_%d" % len(before_names)
                want_name = base if base not in before_names else base + "_v2"
                require(got_name == want_name, "constraint_names", lambda: "constraint added without a name as the %d-th is called %r, expected %r" % (len(before_names), got_name, want_name))
            elif op["name"] in before_names:
                require(got_name != op["name"] or before_names.count(op["name"]) == 0, "constraint_names", lambda: "a second constraint was stored under the existing name %r" % op["name"])
            else:
                require(got_name == op["name"], "constraint_names", lambda: "constraint added as %r is called %r" % (op["name"], got_name))
            row = row_of(co, state.stations)
            if adopt:
                # read the row back: only its alignment with name and limit is judged
                pos = [k for k, nm in enumerate(net.constraint_index) if nm == got_name and float(net.magnitudes[k]) == float(op["limit"])]
                require(bool(pos), "limit_of_row", lambda: "no row named %r with limit %r after add" % (got_name, op["limit"]))
                row = list(np.asarray(net.constraint_matrix, dtype=float)[pos[-1]])
            if got_name in state.model:
                state.duplicate_names += 1
            if got_name in state.removed:
                state.reused += 1
            state.entries.append({"name": got_name, "limit": op["limit"], "row": row})
            state.adds += 1
            state.scalar_in_sum = state.scalar_in_sum or flag
        elif kind == "add_unknown":
            if not state.stations:
                return
            before = snapshot(net)
            cur, co, flag = build_expr(op["expr"])
            cur = cur + Current({"ghost-station": 1})
            try:
                net.add_constraint(cur, op["limit"], name=op["name"])
                ok = True
            except KeyError:
                ok = False
            require(not ok, "constraint_on_unregistered_station_accepted", "add_constraint accepted an unregistered station")
            require(same(before, snapshot(net)), "rejected_add_changed_state", lambda: "a rejected add_constraint changed the network: limits %r names %r" % (list(net.magnitudes), net.constraint_index))
            state.rejected += 1
        elif kind == "remove":
            names = sorted(set(state.model))
            if op.get("unknown") or not names:
                before = snapshot(net)
                try:
                    net.remove_constraint("no-such-constraint")
                    ok = True
                except KeyError:
                    ok = False
                require(not ok, "remove_unknown_accepted", "remove_constraint accepted an unknown name")
                require(same(before, snapshot(net)), "rejected_remove_changed_state", "a rejected remove_constraint changed the network")
                state.rejected += 1
            else:
                nm = op["name"] if op.get("name") in names else names[op["k"] % len(names)]
                if state.model.count(nm) > 1:
                    state.removed_duplicate += 1
                net.remove_constraint(nm)
                settle_removal(state, nm)
                state.removed.add(nm)
                if state.adds >= 2:
                    state.mutations_after_two_adds += 1
        elif kind == "update":
            names = sorted(set(state.model))
            if op.get("unknown") or not names:
                before = snapshot(net)
                cur, co, flag = build_expr(op["expr"])
                try:
                    net.update_constraint("no-such-constraint", cur, op["limit"])
                    ok = True
                except KeyError:
                    ok = False
                require(not ok, "update_unknown_accepted", "update_constraint accepted an unknown name")
                require(same(before, snapshot(net)), "rejected_update_changed_state", "a rejected update_constraint changed the network")
                state.rejected += 1
            else:
                if has_repeated_ids(op["expr"]):
                    return
                nm = names[op["k"] % len(names)]
                new = op.get("new_name")
                if new is not None and new in state.model and new != nm:
                    new = None
                if state.model.count(nm) > 1:
                    new = None  # keep it simple when the name is ambiguous
                cur, co, flag = build_expr(op["expr"])
                ambiguous = state.model.count(nm) > 1
                rest = list(net.constraint_index)
                rest.remove(nm)
                net.update_constraint(nm, cur, op["limit"], new_name=new)
                stored = new or nm
                if ambiguous:
                    # update = remove one + add under the same name, which still exists: the
                    # re-added constraint gets a collision suffix.  Read its name back.
                    stored = new_name_after_add(state, rest)
                settle_removal(state, nm, {"name": stored, "limit": op["limit"], "row": row_of(co, state.stations)})
                state.scalar_in_sum = state.scalar_in_sum or flag
                if state.adds >= 2:
                    state.mutations_after_two_adds += 1
        elif kind == "query":
            if not state.entries:
                return
            check(state)
            stns = state.stations
            S = np.array([[op["schedule"][(i * 3 + t) % len(op["schedule"])] for t in range(op["T"])] for i in range(len(stns))], dtype=float)
            names = sorted(set(state.model))
            sub = [names[k % len(names)] for k in op["subset"]]
            sub = list(dict.fromkeys(sub)) or names[:1]
            ti = sorted({t % op["T"] for t in op["times"]}, key=lambda t: op["times"].index([x for x in op["times"] if x % op["T"] == t][0])) if op["times"] else None
            lin = bool(op.get("linear"))
            got = net.constraint_current(S, constraints=None if op.get("all") else sub, time_indices=ti, linear=lin)
            rows = aligned_rows(state)
            order = [k for k, nm in enumerate(net.constraint_index) if op.get("all") or nm in sub]
            cols = ti if ti is not None else list(range(op["T"]))
            ph = [cmath.exp(1j * math.radians(state.phases[s])) for s in stns]
            if lin:
                exp = np.array([[sum(abs(rows[k][i]) * S[i, t] for i in range(len(stns))) for t in cols] for k in order], dtype=complex)
            else:
                exp = np.array([[sum(rows[k][i] * S[i, t] * ph[i] for i in range(len(stns))) for t in cols] for k in order])
            require(np.shape(got) == exp.shape, "query_shape", lambda: "constraint_current shape %r, expected %r (constraints %r, times %r)" % (np.shape(got), exp.shape, sub, ti))
            require(np.allclose(got, exp, rtol=1e-12, atol=1e-9), "query_rows_and_columns", lambda: "constraint_current(constraints=%r, time_indices=%r, linear=%r) = %r, rows %r in network order give %r" % (sub, ti, lin, got, [net.constraint_index[k] for k in order], exp))
            # feasibility verdict follows the same rows/limits
            margins = [float(net.magnitudes[k]) + max(1e-5, 1e-7 * float(net.magnitudes[k])) - abs(sum(rows[k][i] * S[i, t] * ph[i] for i in range(len(stns)))) for k in range(len(rows)) for t in range(op["T"])]
            if all(abs(m) > 1e-6 for m in margins):
                want = all(m > 0 for m in margins)
                require(bool(net.is_feasible(S)) == want, "is_feasible_uses_aligned_rows", lambda: "is_feasible says %r, the model's limits/rows say %r" % (not want, want))
            state.queries += 1
            if lin:
                state.linear_queries += 1
        elif kind == "json":
            # continue the history on a network restored from its JSON dump
            from ..scenario import json_roundtrip

            restored, _ = json_roundtrip(net, ChargingNetwork, op.get("via", "string"))
            state.net = restored
            state.json += 1
        elif kind == "scribble":
            # the caller edits, in place, the table constraints_as_df() handed out; the network
            # keeps its own rows (the check after this step compares them with the model)
            from ..scenario import scribble_on_table

            scribble_on_table(net)
        else:  # pragma: no cover
            raise ValueError(op)
    check(state)


def labels_of(state, log):
    labs = []
    if state.mutations_after_two_adds:
        labs.append("remove_or_update_after_two_adds")
    if state.scalar_in_sum:
        labs.append("scalar_multiple_inside_sum")
    if state.queries:
        labs.append("subset_query")
    if state.rejected:
        labs.append("rejected_operation")
    if any(o["op"] == "update" and o.get("new_name") for o in log):
        labs.append("rename")
    if any(o["op"] == "add_unknown" for o in log):
        labs.append("failed_add")
    if '"leaf": "empty"' in __import__("json").dumps(log):
        labs.append("empty_operand")
    if state.reused:
        labs.append("removed_name_used_again")
    if state.auto_named:
        labs.append("auto_named")
    if state.duplicate_names:
        labs.append("duplicate_names")
    if state.removed_duplicate:
        labs.append("removed_one_of_two_equally_named")
    if state.reused_objects:
        labs.append("current_object_added_again")
    if state.strict_aborts:
        labs.append("add_aborted_by_warning_as_error")
    if state.json:
        labs.append("json_roundtrip")
    if any(o["op"] == "scribble" for o in log):
        labs.append("handed_out_table_edited_in_place")
    if state.linear_queries:
        labs.append("linear_query")
    return labs


def run_log(log, rec):
    state = State()
    for op in log:
        apply_op(state, op)
    finish(state, log, rec)


def finish(state, log, rec):
    labs = labels_of(state, log)
    rec.case(log, labs, bool(state.mutations_after_two_adds and state.scalar_in_sum))


PHASE = st.sampled_from([0.0, 30.0, -90.0, 150.0])


class ConstraintMachine(LoggedMachine):
    def new_state(self):
        return State()

    apply = staticmethod(apply_op)

    def finish(self, state, log, rec):
        finish(state, log, rec)

    def ids(self):
        return self.state.stations or POOL[:1]

    @initialize(order=st.permutations(POOL), n=st.integers(1, 5), phases=st.lists(PHASE, min_size=6, max_size=6))
    def setup(self, order, n, phases):
        for i in range(n):
            self.do({"op": "register", "id": order[i], "phase": phases[i]})

    @rule(sid=st.sampled_from(POOL + ["late-1"]), phase=PHASE)
    def register(self, sid, phase):
        self.do({"op": "register", "id": sid, "phase": phase})

    @rule(data=st.data(), limit=st.sampled_from([5.0, 10.5, 32.0, 80.0, 420.0, 0.0, 0]))
    def add(self, data, limit):
        self.state.counter += 1
        name = "con-%d" % self.state.counter
        free = sorted(self.state.removed - set(self.state.model))
        how = data.draw(st.sampled_from(["fresh", "fresh", "fresh", "reuse", "auto", "auto", "collide"]))
        if how == "reuse" and free:
            name = data.draw(st.sampled_from(free))  # a name that was removed earlier is used again
        elif how == "auto":
            name = None  # the network picks "_const_<n>" (which may collide with an earlier one)
        elif how == "collide" and self.state.model:
            name = data.draw(st.sampled_from(sorted(set(self.state.model))))  # stored under "<name>_v2"
        reuse = data.draw(st.sampled_from([None, None, None, 0, 1, 2, 5])) if self.state.used_currents else None
        strict = how == "collide" and data.draw(st.booleans())
        self.do({"op": "add", "name": name, "limit": limit, "expr": data.draw(exprs(self.ids())), "reuse_object": reuse, "strict": strict})

    @precondition(lambda self: len(self.state.model) >= 1)
    @rule(data=st.data(), limit=st.sampled_from([5.0, 32.0, 0.0]))
    def colliding_add_under_warnings_as_errors(self, data, limit):
        """A name that is already taken, added by a caller who runs with warnings as errors."""
        self.state.counter += 1
        name = data.draw(st.sampled_from(sorted(set(self.state.model))))
        self.do({"op": "add", "name": name, "limit": limit, "expr": data.draw(exprs(self.ids())), "reuse_object": None, "strict": True})

    @precondition(lambda self: len(self.state.model) >= 1)
    @rule(data=st.data(), limit=st.sampled_from([7.0, 99.0]))
    def add_unknown(self, data, limit):
        self.state.counter += 1
        self.do({"op": "add_unknown", "name": "con-%d" % self.state.counter, "limit": limit, "expr": data.draw(exprs(self.ids()))})

    @rule(k=st.integers(0, 7), unknown=st.sampled_from([False, False, False, True]))
    def remove(self, k, unknown):
        self.do({"op": "remove", "k": k, "unknown": unknown})

    @rule(data=st.data(), k=st.integers(0, 7), limit=st.sampled_from([7.0, 33.0, 99.0, 0.0, 0]), rename=st.booleans(), unknown=st.sampled_from([False, False, False, False, True]))
    def update(self, data, k, limit, rename, unknown):
        self.state.counter += 1
        self.do({"op": "update", "k": k, "limit": limit, "new_name": ("ren-%d" % self.state.counter) if rename else None, "unknown": unknown, "expr": data.draw(exprs(self.ids()))})

    @precondition(lambda self: len(self.state.model) >= 1)
    @rule(T=st.integers(1, 3), schedule=st.lists(st.sampled_from([0.0, 6.0, 16.5, 32.0]), min_size=3, max_size=9), subset=st.lists(st.integers(0, 7), min_size=1, max_size=4), times=st.lists(st.integers(0, 2), max_size=3, unique=True), whole=st.sampled_from([False, False, True]), linear=st.sampled_from([False, False, True]))
    def query(self, T, schedule, subset, times, whole, linear):
        self.do({"op": "query", "T": T, "schedule": schedule, "subset": subset, "times": times, "all": whole, "linear": linear})

    @precondition(lambda self: len(self.state.model) >= 2)
    @rule(T=st.integers(1, 2), schedule=st.lists(st.sampled_from([6.0, 16.5, 32.0]), min_size=3, max_size=6), k=st.integers(0, 7), how=st.sampled_from(["remove", "update"]), limit=st.sampled_from([7.0, 33.0]), data=st.data())
    def query_mutate_query(self, T, schedule, k, how, limit, data):
        """A linear and a phase-aware query of all rows directly before and after a removal / update
        (stale per-network caches show here)."""
        q = {"op": "query", "T": T, "schedule": schedule, "subset": [0], "times": [], "all": True}
        self.do(dict(q, linear=True))
        self.do(dict(q, linear=False))
        if how == "remove":
            self.do({"op": "remove", "k": k, "unknown": False})
        else:
            self.state.counter += 1
            self.do({"op": "update", "k": k, "limit": limit, "new_name": None, "unknown": False, "expr": data.draw(exprs(self.ids()))})
        self.do(dict(q, linear=True))
        self.do(dict(q, linear=False))

    @precondition(lambda self: len(self.state.model) >= 1)
    @rule(data=st.data(), k=st.integers(0, 7), limits=st.lists(st.sampled_from([5.0, 10.5, 32.0, 80.0]), min_size=2, max_size=2, unique=True))
    def equally_named_then_remove(self, data, k, limits):
        """Two adds under an existing name (both are stored as "<name>_v2": the network then holds
        two constraints of the same name), then a removal of that name: exactly one of them goes."""
        names = sorted(set(self.state.model))
        base = names[k % len(names)]
        for lim in limits:
            self.do({"op": "add", "name": base, "limit": lim, "expr": data.draw(exprs(self.ids()))})
        dup = sorted(n for n in set(self.state.model) if self.state.model.count(n) > 1)
        if dup:
            self.do({"op": "remove", "k": 0, "unknown": False, "name": dup[0]})

    @precondition(lambda self: len(self.state.entries) == 0 and len(self.state.stations) >= 1)
    @rule(data=st.data(), limit=st.sampled_from([10, 32, 80]), new_limit=st.sampled_from([7.0, 33.0]))
    def whole_numbers_then_fractions(self, data, limit, new_limit):
        """A first constraint written with whole numbers only (a plain list of stations, an integer
        limit), then an update of that very constraint - the newest row, keeping its name - to
        fractional coefficients."""
        ids = self.ids()
        members = data.draw(st.lists(st.sampled_from(ids), min_size=1, max_size=len(ids), unique=True))
        self.state.counter += 1
        name = "con-%d" % self.state.counter
        self.do({"op": "add", "name": name, "limit": limit, "expr": {"leaf": "list", "ids": members}})
        frac = {"leaf": "dict", "order": members, "coeffs": {m: data.draw(st.sampled_from([0.5, 1.5, -0.25, 0.125, 2.5])) for m in members}}
        names = sorted(set(self.state.model))
        if name in names:
            self.do({"op": "update", "k": names.index(name), "limit": new_limit, "new_name": None, "unknown": False, "expr": frac})

    @precondition(lambda self: self.state.json < 2 and len(self.state.stations) >= 1)
    @rule(via=st.sampled_from(["string", "string", "path", "buffer"]))
    def json_roundtrip(self, via):
        self.do({"op": "json", "via": via})


    @precondition(lambda self: len(self.state.model) >= 1)
    @rule()
    def scribble_on_handed_out_table(self):
        self.do({"op": "scribble"})


def subchecks(tier):
    return [
        Machine(
            "constraint_machine",
            ConstraintMachine,
            quick=400,
            thorough=40000,
            steps=25,
            floors={"json_roundtrip": 0.1, "linear_query": 0.05, "remove_or_update_after_two_adds": 0.134, "scalar_multiple_inside_sum": 0.128, "subset_query": 0.101, "failed_add": 0.099, "removed_one_of_two_equally_named": 0.1, "current_object_added_again": 0.1, "add_aborted_by_warning_as_error": 0.03},
        )
    ]


def replay(subcheck, spec, rec):
    run_log(spec, rec)
