"""C13 - EVSEs accept exactly their allowable pilots and advertise truthful limits."""
import math
from datetime import datetime

import numpy as np
from hypothesis import strategies as st

from acnportal.acnsim import EV, EVSE, Battery, ChargingNetwork, DeadbandEVSE, EventQueue, FiniteRatesEVSE, Simulator
from acnportal.acnsim.interface import Interface

from ..runner import Given, require

ID = "C13"
RULE = (
    "Hypothesis generates an EVSE of each class (continuous [min,max] incl. min>0, min==max, max=inf; "
    "deadband (end,max); finite lists that are unsorted / duplicated / without 0 / single-element / "
    "fractional) and applies, one after another, the COMPLETE boundary grid b+d for every boundary b of "
    "its allowable set, d in {0, +-5e-4, +-(1e-3-1e-6), +-(1e-3+1e-6), +-2e-3}, plus random pilots, "
    "directly or through ChargingNetwork.update_pilots, with or without a connected EV, alone or next "
    "to a neighbour station of the same class with equal min/max but another allowable set. Oracle: an "
    "independent acceptance predicate per class (guard band 1e-9 counted as ambiguous), state "
    "snapshots for the 'rejected changes nothing' clause, and acceptance of every advertised value "
    "(EVSE, network cache, Interface, InfrastructureInfo). Non-trivial = some pilot lies within 2e-3 A "
    "of a boundary and both an accepted and a rejected pilot occurred; distinct by spec hash."
)
ASSUMPTIONS = [
    "allowable rates and range bounds are non-negative finite numbers (max may be infinite)",
    "acceptance within 1e-9 A of the 1e-3 A tolerance edge is not judged (floating point)",
]

ATOL = 1e-3
GUARD = 1e-9


# ------------------------------------------------------------------ oracle


def boundaries(spec):
    k = spec["kind"]
    if k == "cont":
        b = [spec["min"]]
        if spec["max"] is not None:
            b.append(spec["max"])
        return b
    if k == "deadband":
        b = [0.0, spec["end"]]
        if spec["max"] is not None:
            b.append(spec["max"])
        return b
    return sorted(set(spec["rates"]) | {0.0})


def margin(spec, p):
    """> 0: inside the accepted set by that much; < 0: outside by that much."""
    k = spec["kind"]
    hi = math.inf if spec.get("max") is None else spec.get("max")
    if p != p:
        return -math.inf  # NaN is in no allowable set
    if p == math.inf:
        return math.inf if (hi == math.inf and k != "finite") else -math.inf
    if k == "cont":
        return min(p + ATOL - spec["min"], hi + ATOL - p)
    if k == "deadband":
        rng = min(p + ATOL - spec["end"], hi + ATOL - p)
        return max(ATOL - abs(p), rng)
    return max(ATOL - abs(p - r) for r in boundaries(spec))


def build_evse(spec, sid="EV-se"):
    k = spec["kind"]
    hi = float("inf") if spec.get("max") is None else spec["max"]
    if k == "cont":
        return EVSE(sid, max_rate=hi, min_rate=spec["min"])
    if k == "deadband":
        return DeadbandEVSE(sid, deadband_end=spec["end"], max_rate=hi)
    rates = list(spec["rates"])
    how = spec.get("container", "list")
    # "allowable_rates (iterable)": any iterable of rates, one-shot ones included
    if how == "tuple":
        rates = tuple(rates)
    elif how == "array":
        rates = np.array(rates, dtype=float)
    elif how == "generator":
        rates = (r for r in rates)
    elif how == "map":
        rates = map(float, rates)
    elif how == "series":
        import pandas as pd

        rates = pd.Series(rates, index=["lvl-%d" % i for i in range(len(rates))])
    elif how == "set":
        rates = set(rates)
    evse = FiniteRatesEVSE(sid, rates)
    if how == "list" and spec.get("edit_list_afterwards"):
        # the caller goes on using its own list (e.g. to describe a bigger station): the station
        # that was built from it keeps the levels it was built with
        rates.append(max(rates) + 8.0)
        rates.append(3.21)
    return evse


def twin_of(es):
    """Spec of an EVSE of the same class with equal min_rate / max_rate but a different
    allowable set, or None if the class has no such neighbour."""
    if es["kind"] == "finite":
        b = boundaries(es)
        pos = [r for r in b if r > 0]
        if len(pos) < 2:
            return None
        mid = (pos[0] + pos[-1]) / 2.0
        rates = [pos[0], pos[-1]] + ([mid] if all(abs(mid - r) > 2e-3 for r in b) else [])
        if sorted(set([0.0] + rates)) == b:
            return None
        return {"kind": "finite", "rates": rates}
    if es["kind"] == "deadband" and es["end"] > 0.01:
        return {"kind": "deadband", "end": es["end"] / 2.0, "max": es.get("max")}
    return None


class CountingBattery(Battery):
    """A user-defined battery (public extension point) that counts charge() calls."""

    def __init__(self, *a, **k):
        super().__init__(*a, **k)
        self.calls = 0

    def charge(self, pilot, voltage, period):
        self.calls += 1
        return super().charge(pilot, voltage, period)


def _snapshot(evse, ev):
    snap = {"pilot": evse.current_pilot, "occupant": evse.ev}
    if ev is not None:
        snap["energy"] = ev.energy_delivered
        snap["rate"] = ev.current_charging_rate
        snap["calls"] = ev._battery.calls
        snap["battery"] = (ev._battery._current_charge, ev._battery.current_charging_power)
    return snap


def prop(spec, rec):
    es = spec["evse"]
    evse = build_evse(es)
    V, period = spec["voltage"], spec["period"]
    net = ChargingNetwork()
    twin = twin_of(es) if spec.get("twin") else None
    if twin is not None:
        # a neighbour of the same class with the same minimum and maximum but another allowable
        # set, registered first: what is advertised for a station must be that station's own set
        net.register_evse(build_evse(twin, "EV-twin"), V, 0)
    net.register_evse(evse, V, 0)
    ev = None
    if spec["with_ev"]:
        ev = EV(0, 10, 1000.0, "EV-se", "sess-x", CountingBattery(1e6, 0, 1e6))
        if spec["via_network"]:
            net.plugin(ev)
        else:
            evse.plugin(ev)
        require(evse.ev is ev, "plugin", "EV not attached after plugin")

    labels = set()
    n_acc = n_rej = n_amb = near = 0
    bnds = boundaries(es)
    for p in spec["pilots"]:
        m = margin(es, p)
        if p == p and any(abs(p - b) <= 2e-3 + 1e-12 for b in bnds):
            near += 1
        before = _snapshot(evse, ev)
        err = None
        try:
            if spec["via_network"]:
                net.update_pilots(np.array([[0.0], [p]] if twin is not None else [[p]]), 0, period)
            else:
                evse.set_pilot(p, V, period)
        except Exception as e:  # noqa: BLE001
            err = e
        after = _snapshot(evse, ev)
        if abs(m) <= GUARD:
            n_amb += 1
            rec.count("ambiguous")
            continue
        if m > 0:
            n_acc += 1
            require(err is None, "accept", lambda: "pilot %r (margin %g inside the allowable set of %r) was rejected: %r" % (p, m, es, err))
            require(evse.current_pilot == p, "accept_pilot", lambda: "after accepted pilot %r current_pilot is %r" % (p, evse.current_pilot))
            if ev is not None:
                require(after["calls"] == before["calls"] + 1, "accept_charges_once", lambda: "battery charged %d times for one accepted pilot" % (after["calls"] - before["calls"]))
                want = before["energy"] + after["rate"] * V / 1000 * period / 60
                require(abs(after["energy"] - want) <= 1e-9 * max(1, abs(want)), "accept_energy", "EV energy not advanced by the applied rate")
        else:
            n_rej += 1
            require(err is not None, "reject", lambda: "pilot %r (%g outside the allowable set of %r) was accepted" % (p, -m, es))
            require(type(err).__name__ == "InvalidRateError", "reject_error_type", lambda: "rejected pilot raised %r instead of InvalidRateError" % (err,))
            if p != p:
                labels.add("nan_pilot")
            require(after == before, "reject_state_unchanged", lambda: "rejected pilot %r changed state: before %r after %r" % (p, before, after))

    # --- advertised values are accepted
    adv = [("max_rate", evse.max_rate)]
    adv.append(("min_rate", evse.min_rate))
    for v in evse.allowable_pilot_signals:
        adv.append(("allowable_pilot_signals", v))
    sim = Simulator(net, None, EventQueue(), datetime(2020, 1, 1), period=period, verbose=False)
    iface = Interface(sim)
    adv.append(("Interface.max_pilot_signal", iface.max_pilot_signal("EV-se")))
    adv.append(("Interface.min_pilot_signal", iface.min_pilot_signal("EV-se")))
    cont, allow = iface.allowable_pilot_signals("EV-se")
    require(bool(cont) == (es["kind"] != "finite"), "advertised_continuity", "is_continuous flag wrong")
    for v in allow:
        adv.append(("Interface.allowable_pilot_signals", v))
    # a caller may do what it likes with the description it was handed (e.g. derate it to a site
    # cap); what is advertised afterwards must still be the EVSE's own values
    scratch = iface.infrastructure_info()
    try:
        np.minimum(scratch.max_pilot, 0.123, out=scratch.max_pilot)
        scratch.min_pilot[...] = 77.0
        for a in scratch.allowable_pilots:
            a[...] = 0.123
        scratch.is_continuous[...] = ~scratch.is_continuous
    except (ValueError, TypeError):
        pass
    _, allow_list = iface.allowable_pilot_signals("EV-se")
    if allow_list:
        allow_list[0] = 0.123
    adv.append(("Interface.max_pilot_signal (after a caller edited its copy)", iface.max_pilot_signal("EV-se")))
    cont2, allow2 = iface.allowable_pilot_signals("EV-se")
    require(bool(cont2) == (es["kind"] != "finite"), "advertised_continuity", "is_continuous flag changed after a caller edited its copy")
    for v in allow2:
        adv.append(("Interface.allowable_pilot_signals (after a caller edited its copy)", v))
    info = iface.infrastructure_info()
    k = info.get_station_index("EV-se")
    require(info.station_ids[k] == "EV-se" and k == (1 if twin is not None else 0), "station_index", lambda: "EV-se reported at index %r of %r" % (k, info.station_ids))
    adv.append(("InfrastructureInfo.max_pilot", info.max_pilot[k]))
    adv.append(("InfrastructureInfo.min_pilot", info.min_pilot[k]))
    for v in info.allowable_pilots[k]:
        adv.append(("InfrastructureInfo.allowable_pilots", v))
    for v in net.allowable_rates[k]:
        adv.append(("ChargingNetwork.allowable_rates", v))
    adv.append(("ChargingNetwork.max_pilot_signals", net.max_pilot_signals[k]))
    require(bool(info.is_continuous[k]) == (es["kind"] != "finite"), "advertised_continuity", "InfrastructureInfo.is_continuous wrong")
    if twin is not None:
        labels.add("twin_station")
        # the same holds after a JSON round trip of the network (the caches are stored)
        net2 = ChargingNetwork.from_json(net.to_json())
        for v in net2.allowable_rates[k]:
            adv.append(("loaded ChargingNetwork.allowable_rates", v))
    for where, v in adv:
        v = float(v)
        if v == math.inf:
            # "no upper limit" is advertised as an infinite maximum; like every advertised value it
            # must itself be accepted
            require(es["kind"] != "finite" and es.get("max") is None, "advertised_in_set", lambda: "%s advertises an infinite value for %r" % (where, es))
            labels.add("infinite_maximum_fed_back")
        else:
            require(math.isfinite(v), "advertised_in_set", lambda: "%s advertises %r" % (where, v))
        require(v == math.inf or margin(es, v) > GUARD, "advertised_in_set", lambda: "%s advertises %r which is not in the allowable set of %r" % (where, v, es))
        try:
            evse.set_pilot(v, V, period)
        except Exception as e:  # noqa: BLE001
            require(False, "advertised_accepted", "%s advertises %r but the EVSE rejects it: %r" % (where, v, e))
    # advertised extremes are the true extremes
    hi = math.inf if es.get("max") is None else es.get("max")
    if es["kind"] == "finite":
        want = boundaries(es)
        got = list(evse.allowable_pilot_signals)
        require(got == want, "finite_normalised", lambda: "allowable list %r, expected sorted unique with 0: %r" % (got, want))
        require(evse.max_rate == want[-1], "advertised_max", lambda: "max_rate %r != %r" % (evse.max_rate, want[-1]))
        pos = [r for r in want if r > 0]
        require(evse.min_rate == (pos[0] if pos else 0), "advertised_min", lambda: "min_rate %r" % (evse.min_rate,))
        require(float(iface.max_pilot_signal("EV-se")) == want[-1], "advertised_max", "Interface max differs")
    else:
        require(float(evse.max_rate) == hi and float(iface.max_pilot_signal("EV-se")) == hi, "advertised_max", lambda: "max_rate %r != %r" % (evse.max_rate, hi))
        if es["kind"] == "cont":
            require(float(evse.min_rate) == es["min"] and float(iface.min_pilot_signal("EV-se")) == es["min"], "advertised_min", "min_rate differs from the configured minimum")
            require([float(x) for x in evse.allowable_pilot_signals] == [es["min"], hi], "advertised_range", "allowable range differs")
        else:
            require([float(x) for x in evse.allowable_pilot_signals] == [es["end"], hi], "advertised_range", "allowable range differs")

    # --- plugging into an occupied station is refused and leaves the occupant
    if ev is not None:
        intruder = EV(0, 10, 5.0, "EV-se", "sess-intruder", CountingBattery(10, 0, 10))
        err = None
        try:
            if spec["via_network"]:
                net.plugin(intruder)
            else:
                evse.plugin(intruder)
        except Exception as e:  # noqa: BLE001
            err = e
        require(err is not None and type(err).__name__ == "StationOccupiedError", "occupied_refused", lambda: "plugin into occupied station: %r" % (err,))
        require(evse.ev is ev and net.get_ev("EV-se") is ev, "occupant_kept", "occupant replaced after refused plugin")
        # ... also when the newcomer carries the occupant's session id (another object)
        clone = EV(0, 10, 5.0, "EV-se", "sess-x", CountingBattery(10, 0, 10))
        before = _snapshot(evse, ev)
        err = None
        try:
            (net if spec["via_network"] else evse).plugin(clone)
        except Exception as e:  # noqa: BLE001
            err = e
        require(err is not None and type(err).__name__ == "StationOccupiedError", "occupied_refused", lambda: "plugin of another EV object with the occupant's session id: %r" % (err,))
        require(evse.ev is ev and _snapshot(evse, ev) == before, "occupant_kept", "occupant replaced or changed after a refused plugin with the same session id")
        labels.add("occupied_plugin")

    if near:
        labels.add("near_boundary")
    if n_acc:
        labels.add("accepted")
    if n_rej:
        labels.add("rejected")
    labels.add(es["kind"])
    if es.get("container") in ("generator", "map"):
        labels.add("rates_from_one_shot_iterable")
    if es["kind"] == "finite" and len(es["rates"]) >= 64:
        labels.add("at_least_64_levels")
    if es["kind"] == "finite" and es.get("container", "list") == "list" and es.get("edit_list_afterwards"):
        labels.add("callers_list_edited_afterwards")
    labels.add("with_ev" if ev is not None else "no_ev")
    labels.add("via_network" if spec["via_network"] else "direct")
    rec.count("pilots", len(spec["pilots"]))
    rec.count("pilots_near_boundary", near)
    rec.count("pilots_accepted", n_acc)
    rec.count("pilots_rejected", n_rej)
    rec.case(spec, labels, nontrivial=bool(near and n_acc and n_rej))


# ------------------------------------------------------------------ generators

RATE = st.one_of(
    st.sampled_from([6.0, 8.0, 16.0, 24.0, 32.0, 40.0, 0.5, 1.0]),
    st.floats(0.01, 80).map(lambda x: round(x, 3)),
    st.integers(1, 80).map(float),
)


@st.composite
def evse_specs(draw):
    kind = draw(st.sampled_from(["cont", "cont", "deadband", "finite", "finite"]))
    if kind == "cont":
        lo = draw(st.one_of(st.just(0.0), st.just(0.0), RATE))
        hi = draw(st.one_of(st.none(), st.just(lo), RATE.map(lambda x: lo + x), st.just(32.0).filter(lambda v: v >= lo)))
        return {"kind": "cont", "min": lo, "max": hi}
    if kind == "deadband":
        end = draw(st.one_of(st.just(6.0), RATE))
        hi = draw(st.one_of(st.none(), st.just(end), RATE.map(lambda x: end + x)))
        return {"kind": "deadband", "end": end, "max": hi}
    shape = draw(st.sampled_from(["av", "cc", "random", "random", "single", "nozero", "dups", "fine"]))
    if shape == "fine":
        # a finely graded station: 6 A to 16..40 A in 0.25 A or 0.1 A steps (65 - 340 levels)
        step = draw(st.sampled_from([0.25, 0.1]))
        top = draw(st.sampled_from([22.0, 32.0, 40.0]))
        rates = [0.0] + [round(6.0 + k * step, 6) for k in range(int(round((top - 6.0) / step)) + 1)]
    elif shape == "av":
        rates = [0.0] + [float(i) for i in range(6, 33)]
    elif shape == "cc":
        rates = [0.0, 8.0, 16.0, 24.0, 32.0]
    elif shape == "single":
        rates = [draw(RATE)]
    else:
        rates = draw(st.lists(RATE, min_size=1, max_size=6))
        if shape != "nozero" and draw(st.booleans()):
            rates.append(0.0)
        if shape == "dups":
            rates = rates + rates[: draw(st.integers(1, len(rates)))]
    if draw(st.booleans()):
        rates = list(draw(st.permutations(rates)))
    else:
        rates = sorted(set(rates)) if draw(st.booleans()) else rates  # already in canonical form
    return {"kind": "finite", "rates": rates, "edit_list_afterwards": draw(st.booleans()), "container": draw(st.sampled_from(["list", "list", "tuple", "array", "generator", "map", "series", "set"]))}


DELTAS = [0.0, 5e-4, -5e-4, 1e-3 - 1e-6, -(1e-3 - 1e-6), 1e-3 + 1e-6, -(1e-3 + 1e-6), 2e-3, -2e-3]


@st.composite
def cases(draw):
    es = draw(evse_specs())
    bnds = boundaries(es)
    if len(bnds) > 6:  # AV-like list: complete grid on a generated subset of the levels
        idx = draw(st.lists(st.integers(0, len(bnds) - 1), min_size=4, max_size=6, unique=True))
        # both ends of the span are always probed (values just outside it must be refused)
        gb = [bnds[i] for i in sorted(set(idx) | {0, len(bnds) - 1})]
    else:
        gb = bnds
    grid = [b + d for b in gb for d in DELTAS]
    hi = max(bnds) if bnds else 32.0
    extra = draw(st.lists(st.one_of(st.floats(-1, hi + 5), st.floats(0, hi + 1).map(lambda x: round(x, 2))), min_size=0, max_size=8))
    if es.get("max", 0) is None:
        # no upper limit: huge and infinite pilots are in the allowable set
        extra = extra + draw(st.lists(st.sampled_from([1e6, 1e12, float("inf")]), max_size=2))
    elif draw(st.integers(0, 7)) == 0:
        extra = extra + [float("inf")]
    if draw(st.integers(0, 3)) == 0:
        extra = extra + [float("nan")]  # not a number lies in no allowable set
    pilots = list(draw(st.permutations(grid + extra)))
    # 0 A matters for every class (it is what an idle station is sent), also as the very first pilot
    zero_at = draw(st.sampled_from([0, 0, None, len(pilots) // 2]))
    if zero_at is not None:
        pilots.insert(zero_at, 0.0)
    return {
        "evse": es,
        "with_ev": draw(st.booleans()),
        "via_network": draw(st.booleans()),
        "voltage": draw(st.sampled_from([120.0, 208.0, 240.0, 277.0])),
        "period": draw(st.sampled_from([1.0, 5.0, 15.0])),
        "pilots": pilots,
        "twin": draw(st.booleans()),
    }


def subchecks(tier):
    return [
        Given(
            "evse_boundary_grid",
            cases(),
            prop,
            quick=1500,
            thorough=150000,
            floors={"near_boundary": 0.454, "rejected": 0.5, "with_ev": 0.149, "finite": 0.15, "deadband": 0.071, "cont": 0.15, "infinite_maximum_fed_back": 0.042, "nan_pilot": 0.1, "at_least_64_levels": 0.017, "callers_list_edited_afterwards": 0.012, "rates_from_one_shot_iterable": 0.029},
        )
    ]


def replay(subcheck, spec, rec):
    prop(spec, rec)
