"""C14 - battery models follow their documented charging laws (noise off)."""
import math

from hypothesis import strategies as st

from acnportal.acnsim import Battery, Linear2StageBattery

from ..obs import stored_charge
from ..oracles import battery_law as law
from ..runner import Given, require

ID = "C14"
RULE = (
    "Hypothesis draws capacity [0.5,200] kWh, initial charge (mass at 0, at/just below the transition "
    "SoC, full), max power [0.2,150] kW, transition SoC in [0,1) (mass at 0, 0.8, 0.999), voltage, "
    "period [1,120] min, a sequence of 1-4 pilots from {0} u [1e-8,1e3] A, and partner values "
    "pilot2>=pilot, T2>=T. Oracles: independent closed-form solution of ds/dt=min(r, m(1-s)/(1-ts)) "
    "(itself cross-checked against RK4 on a sample), the ideal min-of-three formula, the documented "
    "stepwise formula; metamorphic T = T/2+T/2, monotonicity in pilot and T, zero pilot, reset. "
    "Non-trivial = a step crosses the pilot-dependent transition SoC or starts in the ramp-down "
    "region (two-stage) / is limited by max power or by the remaining capacity (ideal); distinct by "
    "spec hash."
)
ASSUMPTIONS = [
    "non-zero pilots below 1e-8 A are outside the generated domain (DESIGN.md section 5)",
    "agreement tolerance 1e-9*capacity on stored charge, 1e-8 A + 1e-9 relative on current",
    "stored charge is read from the battery's state attribute (no public accessor exists)",
]


def as_given(spec, x):
    """Whole numbers are handed over as Python ints when the case says so (the way most callers
    write them: 208 V, 5 min, 32 A, 60 kWh)."""
    if spec.get("ints") and isinstance(x, float) and x.is_integer() and abs(x) < 1e15:
        return int(x)
    return x


def build(spec):
    if spec.get("ints"):
        spec = dict(spec, cap=as_given(spec, spec["cap"]), init=as_given(spec, spec["init"]), maxp=as_given(spec, spec["maxp"]))
    if spec["model"] == "ideal":
        b = Battery(spec["cap"], spec["init"], spec["maxp"])
        return Battery.from_json(b.to_json()) if spec.get("via_json") else b
    opt = "continuous" if spec["model"] == "cont" else "stepwise"
    if spec.get("option_from_config"):
        # the option arrives from a configuration file / JSON: an equal string, not the literal
        opt = "".join(list(opt))
    b = Linear2StageBattery(spec["cap"], spec["init"], spec["maxp"], noise_level=0, transition_soc=spec["tsoc"], charge_calculation=opt)
    if spec.get("via_json"):
        # the battery as it comes back from a saved file
        b = Linear2StageBattery.from_json(b.to_json())
    return b


def expected(spec, charge, pilot, T):
    if spec["model"] == "ideal":
        return law.ideal_after(spec["cap"], charge, spec["maxp"], pilot, spec["V"], T)
    if spec["model"] == "cont":
        return law.two_stage_after(spec["cap"], charge, spec["maxp"], spec["tsoc"], pilot, spec["V"], T)
    return law.stepwise_after(spec["cap"], charge, spec["maxp"], spec["tsoc"], pilot, spec["V"], T)


def _regime(spec, charge, pilot, T):
    """Labels describing which part of the law a step exercises."""
    cap, maxp, V = spec["cap"], spec["maxp"], spec["V"]
    Th = T / 60.0
    if pilot == 0:
        return {"zero_pilot"}
    labs = set()
    if spec["model"] == "ideal":
        if pilot * V / 1000 > maxp:
            labs.add("max_power_binds")
        if min(pilot * V / 1000, maxp) * Th >= cap - charge:
            labs.add("fills")
        return labs
    m = maxp / cap
    r = min(pilot * V / 1000 / cap, m)
    s0 = charge / cap
    s_star = 1 - (1 - spec["tsoc"]) * r / m
    if pilot * V / 1000 > maxp:
        labs.add("max_power_binds")
    if s0 >= s_star:
        labs.add("starts_in_rampdown")
    elif Th > (s_star - s0) / r:
        labs.add("crosses_transition")
    return labs


def prop(spec, rec):
    cap, V, T = spec["cap"], spec["V"], spec["T"]
    tol_c = 1e-9 * cap
    labels = {spec["model"]}
    if spec.get("ints"):
        labels.add("integer_arguments")
    if spec.get("via_json"):
        labels.add("battery_restored_from_json")

    # 1. the law, step by step along a trajectory (each step judged from the actual state before it)
    b = build(spec)
    T_all = T
    rep = int(spec.get("repeat", 1))
    if rep > 1:
        labels.add("battery_object_lives_through_%d_or_more_calls" % (50 if rep * len(spec["pilots"]) >= 50 else 10))
    for step, pilot in enumerate(list(spec["pilots"]) * rep):
        # the period may change from one call to the next (a caller sub-stepping a period)
        T = spec["periods"][step % len(spec["pilots"])] if spec.get("periods") else T_all
        before = stored_charge(b)
        labels |= _regime(spec, before, pilot, T)
        if T != T_all:
            labels.add("period_changes_between_calls")
        want_charge, want_power = expected(spec, before, pilot, T)
        rate = b.charge(as_given(spec, pilot), as_given(spec, V), as_given(spec, T))
        after = stored_charge(b)
        require(abs(after - want_charge) <= tol_c, "law_charge", lambda: "%s: from %.12g kWh pilot %r A for %r min -> %.12g kWh, law says %.12g" % (spec["model"], before, pilot, T, after, want_charge))
        want_rate = want_power * 1000 / V
        require(abs(rate - want_rate) <= 1e-8 + 1e-9 * abs(want_rate), "law_rate", lambda: "returned rate %.12g A, law says %.12g A" % (rate, want_rate))
        require(abs(b.current_charging_power - want_power) <= 1e-11 * (1 + cap * 60 / T) + 1e-9 * abs(want_power), "law_power", lambda: "current_charging_power %.12g kW, law says %.12g" % (b.current_charging_power, want_power))
        if pilot == 0:
            if before <= cap:
                require(rate == 0 and after == before and b.current_charging_power == 0, "zero_pilot", lambda: "zero pilot delivered rate %r, charge %r -> %r" % (rate, before, after))
            else:
                # the previous step left the charge one rounding error above capacity; the
                # "power that would exactly fill it" is then a negative rounding error as well
                require(abs(rate) <= 1e-8 and abs(after - before) <= 1e-8 * V / 1000.0 * T / 60.0 + 1e-12 * cap, "zero_pilot", lambda: "zero pilot delivered rate %r, charge %r -> %r" % (rate, before, after))
                labels.add("zero_pilot_after_rounding_overshoot")

    T = T_all
    pilot = spec["pilots"][0]

    # 2. charging for T equals charging for T/2 twice (exact laws only)
    if spec["model"] in ("ideal", "cont"):
        b1, b2 = build(spec), build(spec)
        b1.charge(pilot, V, T)
        b2.charge(pilot, V, T / 2)
        b2.charge(pilot, V, T / 2)
        require(abs(stored_charge(b1) - stored_charge(b2)) <= tol_c, "split_T", lambda: "T=%r: one step %.12g kWh, two half steps %.12g kWh" % (T, stored_charge(b1), stored_charge(b2)))
        # ... and equals charging for T/n n times (a caller sub-stepping a period finely)
        n = int(spec.get("split_n", 2))
        if n > 2:
            b3 = build(spec)
            for _ in range(n):
                b3.charge(pilot, V, T / n)
            require(abs(stored_charge(b1) - stored_charge(b3)) <= tol_c, "split_T", lambda: "T=%r: one step %.12g kWh, %d steps of T/%d %.12g kWh" % (T, stored_charge(b1), n, n, stored_charge(b3)))
            labels.add("period_split_into_many_steps")

        # 3. monotone in the pilot and in T
        def delivered(p, t):
            bb = build(spec)
            bb.charge(p, V, t)
            return stored_charge(bb) - spec["init"]

        d0 = delivered(pilot, T)
        dp = delivered(spec["pilot2"], T)
        dt = delivered(pilot, spec["T2"])
        slack = 1e-12 * max(1.0, cap)
        require(dp >= d0 - slack, "monotone_pilot", lambda: "pilot %r -> %.15g kWh but larger pilot %r -> %.15g kWh" % (pilot, d0, spec["pilot2"], dp))
        require(dt >= d0 - slack, "monotone_T", lambda: "T %r -> %.15g kWh but longer T %r -> %.15g kWh" % (T, d0, spec["T2"], dt))
        require(d0 >= -slack, "non_negative", "negative energy delivered")

    # 4. reset
    b.reset()
    require(stored_charge(b) == spec["init"] and b.current_charging_power == 0, "reset", lambda: "reset() left charge %r (init %r), power %r" % (stored_charge(b), spec["init"], b.current_charging_power))
    x = spec["reset_to"]
    if x is not None:
        b.charge(max(pilot, 1.0), V, T)
        if x <= cap:
            b.reset(x)
            require(stored_charge(b) == x and b.current_charging_power == 0, "reset_value", lambda: "reset(%r) left charge %r" % (x, stored_charge(b)))
        else:
            keep = stored_charge(b)
            try:
                b.reset(x)
            except ValueError:
                require(stored_charge(b) == keep, "reset_over_capacity", "failed reset changed the charge")
            else:
                require(False, "reset_over_capacity", "reset(%r) above capacity %r did not raise" % (x, cap))
        labels.add("reset_value")
        # reset(x) is a one-off: a later plain reset() goes back to the constructed initial charge
        b.charge(max(pilot, 1.0), V, T)
        b.reset()
        require(stored_charge(b) == spec["init"] and b.current_charging_power == 0, "reset_after_reset_value", lambda: "reset() after reset(%r) left charge %r, constructed initial charge %r" % (x, stored_charge(b), spec["init"]))

    # 5. cross-check of the oracle itself against numerical integration (sampled)
    if spec["model"] == "cont" and spec.get("rk4") and pilot > 0:
        cf, _ = law.two_stage_after(cap, spec["init"], spec["maxp"], spec["tsoc"], pilot, V, T)
        # the ramp-down is stiff when the transition SoC is close to 1: choose the step so that
        # (decay rate) x (step) <= 0.02, and skip the cross-check where that needs too many steps
        lam = spec["maxp"] / cap / (1.0 - spec["tsoc"])  # 1/h
        n = max(2000, int(math.ceil(lam * (T / 60.0) / 0.02)))
        if n <= 40000:
            num = law.two_stage_rk4(cap, spec["init"], spec["maxp"], spec["tsoc"], pilot, V, T, n=n)
            if abs(cf - num) > 1e-5 * cap:
                raise RuntimeError("oracle self-check failed: closed form %r vs RK4 %r (n=%d) for %r" % (cf, num, n, spec))
            labels.add("rk4_crosscheck")
        else:
            rec.count("rk4_skipped_stiff")

    nt = bool(labels & {"crosses_transition", "starts_in_rampdown", "max_power_binds", "fills"})
    rec.case(spec, labels, nt)


# ------------------------------------------------------------------ generator

# pilots too small to matter physically but not zero: the bundled greedy algorithm with a rampdown
# estimator (up_increment 0) hands a full car its last actual rate, ~2e-14 A (D14).  Used by the
# bounds check C03; the law oracle of C14 itself divides by the pilot-induced SoC step and keeps
# to pilots >= 1e-8 A.
TINY_PILOT = st.sampled_from([5e-324, 1e-300, 1e-20, 2.08e-14, 1e-12, 1e-10])

PILOT = st.one_of(
    st.just(0.0),
    st.sampled_from([6.0, 8.0, 16.0, 32.0, 80.0]),
    st.floats(1e-8, 1e3),
    st.floats(0.5, 64),
)
VOLT = st.one_of(st.sampled_from([120.0, 208.0, 240.0, 277.0]), st.floats(100, 500))
PERIOD = st.one_of(st.sampled_from([1.0, 5.0, 15.0, 60.0]), st.floats(1, 120))


@st.composite
def battery_params(draw):
    cap = draw(st.one_of(st.sampled_from([8.0, 24.0, 60.0, 100.0]), st.floats(0.5, 200)))
    tsoc = draw(st.one_of(st.sampled_from([0.0, 0.8, 0.999, 0.5]), st.floats(0, 0.999)))
    where = draw(st.sampled_from(["zero", "low", "below_t", "at_t", "above_t", "full", "near_full", "any"]))
    near = None
    if where == "near_full":
        # a hair below capacity: head-room of the order of the 1e-3 kWh "fully charged" tolerance
        near = draw(st.sampled_from([1e-4, 5e-4, 9.9e-4, 1.1e-3, 1e-6, 1e-2]))
        frac = 1.0
    elif where == "zero":
        frac = 0.0
    elif where == "low":
        frac = draw(st.floats(0, 0.3))
    elif where == "below_t":
        frac = max(0.0, tsoc - draw(st.floats(0, 0.05)))
    elif where == "at_t":
        frac = tsoc
    elif where == "above_t":
        frac = tsoc + (1 - tsoc) * draw(st.floats(0, 1))
    elif where == "full":
        frac = 1.0
    else:
        frac = draw(st.floats(0, 1))
    init = min(cap, max(0.0, frac * cap))
    if near is not None:
        init = max(0.0, cap - near)
    maxp = draw(st.one_of(st.sampled_from([3.3, 6.6, 7.0, 50.0]), st.floats(0.2, 150)))
    return cap, init, maxp, tsoc


@st.composite
def cases(draw):
    cap, init, maxp, tsoc = draw(battery_params())
    T = draw(PERIOD)
    pilots = draw(st.lists(PILOT, min_size=1, max_size=4))
    ints = draw(st.integers(0, 3)) == 0
    if ints:
        # the everyday call: whole numbers, written as ints
        cap = float(draw(st.sampled_from([8, 24, 60, 100])))
        init = float(draw(st.sampled_from([0, 0, int(cap * 0.5), int(cap) - 1, int(cap)])))
        maxp = float(draw(st.sampled_from([3, 7, 11, 50])))
        T = float(draw(st.sampled_from([1, 5, 7, 15, 60])))
        pilots = [float(draw(st.sampled_from([0, 6, 8, 16, 32, 80]))) for _ in pilots]
    periods = None
    how = draw(st.sampled_from(["same", "same", "free", "same_product"]))
    if not ints and how == "free":
        periods = [draw(PERIOD) for _ in pilots]
    elif not ints and how == "same_product" and len(pilots) >= 2 and pilots[0] > 0:
        # twice the pilot for half the period: the same ampere-minutes, another law
        periods, p2 = [T], [pilots[0]]
        for _ in pilots[1:]:
            f = draw(st.sampled_from([2.0, 0.5, 4.0]))
            p2.append(p2[-1] * f)
            periods.append(periods[-1] / f)
        pilots = p2
    return {
        "option_from_config": draw(st.booleans()),
        "via_json": draw(st.integers(0, 3)) == 0,
        "periods": periods,
        "ints": ints,
        "model": draw(st.sampled_from(["ideal", "cont", "cont", "cont", "step"])),
        "cap": cap,
        "init": init,
        "maxp": maxp,
        "tsoc": tsoc,
        "V": float(draw(st.sampled_from([120, 208, 240]))) if ints else draw(VOLT),
        "T": T,
        "T2": T + draw(st.one_of(st.just(0.0), st.floats(0, 120))),
        "pilots": pilots,
        "pilot2": pilots[0] + draw(st.one_of(st.just(0.0), st.floats(1e-8, 100))),
        "reset_to": draw(st.one_of(st.none(), st.floats(0, 1.5).map(lambda f: f * cap))),
        "rk4": draw(st.integers(0, 19)) == 0,
        "split_n": draw(st.sampled_from([2, 2, 3, 7, 16, 50])),
        "repeat": draw(st.sampled_from([1, 1, 1, 1, 5, 25, 100])),
    }


def subchecks(tier):
    return [
        Given(
            "battery_laws",
            cases(),
            prop,
            quick=4000,
            thorough=600000,
            floors={"crosses_transition": 0.03, "starts_in_rampdown": 0.1, "cont": 0.205, "ideal": 0.08, "step": 0.051, "integer_arguments": 0.1, "period_changes_between_calls": 0.083, "period_split_into_many_steps": 0.15, "battery_object_lives_through_50_or_more_calls": 0.08},
        )
    ]


def replay(subcheck, spec, rec):
    prop(spec, rec)
