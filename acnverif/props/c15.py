"""C15 - generated sessions are well-formed and their batteries can hold the request."""
import json
import math
import warnings
from datetime import datetime, timedelta, timezone
from fractions import Fraction as F
from unittest import mock

import numpy as np
import pytz
from hypothesis import strategies as st

from acnportal.acnsim.events import acndata_events
from acnportal.acnsim.events.stochastic_events import StochasticEvents
from acnportal.acnsim.models import Battery, Linear2StageBattery, batt_cap_fn

from ..runner import Given, require

ID = "C15"
RULE = (
    "Three generated domains. (documents) ACN-Data session documents - connection / disconnect "
    "instants as epoch seconds plus an optional sub-second part (0 or 1..999 ms), rendered in "
    "America/Los_Angeles, UTC, Europe/Berlin, Asia/Kolkata, Australia/Lord_Howe, stays of 0 s, "
    "below one period, exactly k periods +-1 s, hours, days, instants aimed at period boundaries "
    "and DST changes - pushed through the public get_evs / generate_events with the DataClient "
    "stubbed, for period in {1,5,7,10,15,45,60} (stochastic samples also 2.5 and 8), voltages, max powers, max_len in {None,1,12,100}, "
    "force_feasible, battery_params in {None, ideal+kwargs, two-stage with a RECORDING capacity "
    "function around batt_cap_fn}. Oracle in integer arithmetic: arrival = floor(t_conn/(60 p)) - "
    "floor(t_start/(60 p)), same for departure, then the max_len cap; departure >= arrival and "
    "order preserved; requested energy = kWhDelivered or min(., Pmax*stay*p/60) with "
    "force_feasible; ids copied; the capacity function is called with exactly (requested energy, "
    "stay in periods, voltage, period); battery class/kwargs as given and capacity - initial "
    "charge >= request - 1e-6; plug-in events carry the arrival as timestamp. (stochastic) sample "
    "matrices incl. invalid rows, several days, empty days through StochasticEvents."
    "generate_events with sample() overridden: floor(hours*60/p), invalid rows skipped, ids by row "
    "index, max_len cap in the generator's own unit (hours, pinned by the existing tests), "
    "force_feasible cap, capacity function called with the stay in periods. (clipping) "
    "GaussianMixtureEvents around a stub mixture: clip_samples / sample project every column into "
    "its bounds and generate_events converts exactly the clipped rows. (fit) batt_cap_fn for "
    "all (energy, stay >= 1, voltage, period incl. periods that do not divide 60): 0 <= init <= "
    "cap, cap - init >= request - 1e-6 and a Linear2StageBattery(cap, init, 32 V/1000) charged at "
    "32 A for the stay delivers the request within 1e-6 kWh; ValueError only if no listed "
    "capacity >= request can deliver the request from empty. Non-trivial = stay not a whole "
    "number of periods, or request below half of what is deliverable, or a cap was applied."
)
ASSUMPTIONS = [
    "instants are whole seconds plus 0 or 1..999 ms, after 1970; float floors within 1e-9 (relative) of an integer accept both neighbours and are counted as ambiguous",
    "the stochastic max_len cap is compared in hours (pinned by test_generate_events_with_max_len*)",
    "the capacity fit's own bisection stops at 1e-9 SoC, so 1e-6 kWh is the tightest tolerance claimed",
]

ZONES = ["America/Los_Angeles", "UTC", "Europe/Berlin", "Asia/Kolkata", "Australia/Lord_Howe"]


# --------------------------------------------------------------------------- helpers


def aware(epoch_ms, zone, kind="pytz"):
    """Aware datetime for an epoch given in integer milliseconds, carrying a pytz zone (what the
    data client produces), a standard-library zoneinfo zone or a fixed UTC offset."""
    base = datetime.fromtimestamp(epoch_ms // 1000, tz=timezone.utc) + timedelta(milliseconds=epoch_ms % 1000)
    if kind == "zoneinfo":
        import zoneinfo

        return base.astimezone(zoneinfo.ZoneInfo(zone))
    if kind == "fixed":
        off = pytz.timezone(zone).utcoffset(datetime(2019, 1, 15)) if zone != "UTC" else timedelta(0)
        return base.astimezone(timezone(off))
    return base.astimezone(pytz.timezone(zone))


def bucket(epoch_ms, period):
    return (epoch_ms) // (60 * period * 1000)


def battery_dump(ev):
    d = json.loads(ev.to_json())
    ctx = d["context_dict"]
    b = ctx[ctx[d["id"]]["attributes"]["_battery"]]
    return b["class"], b["attributes"]


class Recorder:
    def __init__(self):
        self.calls = []

    def __call__(self, energy, stay, voltage, period):
        self.calls.append((float(energy), stay, voltage, period))
        return batt_cap_fn(energy, stay, voltage, period)


def make_params(spec, recorder):
    bp = spec["battery_params"]
    if bp is None:
        return None
    if bp["kind"] == "ideal":
        out = {"type": Battery}
    else:
        out = {"type": Linear2StageBattery}
        if bp.get("kwargs"):
            out["kwargs"] = dict(bp["kwargs"])
        if bp.get("fit"):
            out["capacity_fn"] = recorder
    return out


def check_battery(spec, ev, request, stay, labels, who):
    cls, attrs = battery_dump(ev)
    bp = spec["battery_params"]
    want_cls = "Battery" if bp is None or bp["kind"] == "ideal" else "Linear2StageBattery"
    require(cls.endswith("." + want_cls), "battery_class", lambda: "%s: battery class %s, expected %s" % (who, cls, want_cls))
    cap, init = attrs["_capacity"], attrs["_init_charge"]
    require(attrs["_max_power"] == spec["max_power"], "battery_max_power", lambda: "%s: max power %r, given %r" % (who, attrs["_max_power"], spec["max_power"]))
    require(0 <= init <= cap * (1 + 1e-12), "battery_init_within_capacity", lambda: "%s: init %r, capacity %r" % (who, init, cap))
    require(cap - init >= request - 1e-6, "free_capacity_covers_request", lambda: "%s: capacity %r - initial charge %r < requested %r kWh" % (who, cap, init, request))
    if bp and bp.get("kwargs"):
        for k, v in bp["kwargs"].items():
            require(attrs.get("_" + k) == v, "battery_kwargs_applied", lambda: "%s: %s = %r, given %r" % (who, k, attrs.get("_" + k), v))
    if not (bp and bp.get("fit")):
        require(cap == ev.requested_energy and init == 0, "default_battery_is_request_sized", lambda: "%s: capacity %r init %r for a request of %r" % (who, cap, init, ev.requested_energy))


def full_rate_delivery(cap, init, V, period, stay):
    b = Linear2StageBattery(cap, init, 32 * V / 1000)
    tot = 0.0
    for _ in range(stay):
        tot += b.charge(32, V, period) * V / 1000 * period / 60
    return tot


def fit_can_succeed(req, stay, V, period):
    """Independent judgement whether some listed capacity >= request can deliver the request
    from empty within the stay: True / False / None (within 1e-6 kWh, not judged)."""
    best = None
    for c in CAPS:
        if c >= req and stay >= 1:
            can = full_rate_delivery(c, 0.0, V, period, stay)
            best = can if best is None else max(best, can)
    if best is None:
        return False
    if abs(best - req) <= 1e-6:
        return None
    return best > req


def judge_fit_refusal(spec, rows, rec):
    """rows: [(request, stay)] handed to the fit when the conversion raised 'No feasible battery'."""
    verdicts = [fit_can_succeed(r, s, spec["voltage"], spec["period"]) for r, s in rows]
    require(any(v is not True for v in verdicts), "fit_refused_a_feasible_request", lambda: "conversion raised 'No feasible battery size found' although every session %r can be served by a listed capacity" % (rows,))
    rec.count("fit_infeasible_conversion")


# --------------------------------------------------------------------------- documents


def prop_documents(spec, rec):
    period, V, pmax = spec["period"], spec["voltage"], spec["max_power"]
    docs = []
    for i, d in enumerate(spec["docs"]):
        docs.append(
            {
                "_id": "oid-%d" % i,
                "sessionID": d["session"],
                "spaceID": d["space"],
                "stationID": "stn-" + d["space"],
                "connectionTime": aware(d["conn_ms"], d["zone"], spec.get("tzkind", "pytz")),
                "disconnectTime": aware(d["disc_ms"], d["zone"], spec.get("tzkind", "pytz")),
                "doneChargingTime": None,
                "kWhDelivered": d["kwh"],
                "timezone": d["zone"],
            }
        )
    import copy

    docs_before = copy.deepcopy(docs)
    start = aware(spec["start_ms"], spec["start_zone"], spec.get("tzkind", "pytz"))
    end = start + timedelta(days=30)
    rec_fn = Recorder()
    params = make_params(spec, rec_fn)
    seen = {}

    class FakeClient:
        def __init__(self, token, url=None):
            seen["token"] = token

        def get_sessions_by_time(self, site, s, e, *a, **k):
            seen["args"] = (site, s, e)
            # the documents themselves (a caller may have cached them and convert them again)
            return iter(docs)

    labels = set()
    fit = bool(spec["battery_params"] and spec["battery_params"].get("fit"))
    with mock.patch.object(acndata_events, "DataClient", FakeClient), warnings.catch_warnings():
        warnings.simplefilter("ignore")
        try:
            if spec["via_queue"]:
                q = acndata_events.generate_events("tok", "caltech", start, end, period, V, pmax, max_len=spec["max_len"], battery_params=params, force_feasible=spec["force_feasible"])
                pairs = sorted(q.queue, key=lambda p: int(p[1].ev.session_id.split("-")[1]))
                evs = [e.ev for _, e in pairs]
                for ts, e in pairs:
                    require(ts == e.ev.arrival and e.timestamp == e.ev.arrival and e.event_type == "Plugin", "plugin_event_at_arrival", lambda: "event at %r for arrival %r" % (ts, e.ev.arrival))
            else:
                evs = acndata_events.get_evs("tok", "caltech", start, end, period, V, pmax, max_len=spec["max_len"], battery_params=params, force_feasible=spec["force_feasible"])
        except ValueError as e:
            # the fit may find no battery; judged by the fit sub-check's independent simulation
            require(fit and "No feasible battery" in str(e), "conversion_raised", lambda: "conversion raised %r" % (e,))
            off = bucket(spec["start_ms"], period)
            rows = []
            for d in spec["docs"]:
                a, dep = bucket(d["conn_ms"], period) - off, bucket(d["disc_ms"], period) - off
                if spec["max_len"] is not None and dep - a > spec["max_len"]:
                    dep = a + spec["max_len"]
                r = min(d["kwh"], pmax * (dep - a) * period / 60.0) if spec["force_feasible"] else d["kwh"]
                rows.append((r, dep - a))
            judge_fit_refusal(spec, rows, rec)
            rec.case(spec, {"fit_infeasible"}, False)
            return
    # converting a document leaves it as it was (it can be converted again, with other options)
    require(docs == docs_before, "document_modified_by_conversion", lambda: "conversion changed the session documents: %r" % [(a, b) for a, b in zip(docs_before, docs) if a != b][:1])
    require(seen.get("args") == ("caltech", start, end) and seen.get("token") == "tok", "client_called_with_site_and_window", lambda: "client saw %r" % (seen,))
    require(len(evs) == len(docs), "one_ev_per_document", lambda: "%d EVs for %d documents" % (len(evs), len(docs)))
    off = bucket(spec["start_ms"], period)
    nt = False
    prev = None
    for k, (d, ev) in enumerate(zip(spec["docs"], evs)):
        who = "document %d" % k
        a = bucket(d["conn_ms"], period) - off
        dep = bucket(d["disc_ms"], period) - off
        if spec["max_len"] is not None and dep - a > spec["max_len"]:
            dep = a + spec["max_len"]
            labels.add("max_len_cap_applied")
            nt = True
        require(ev.arrival == a and ev.departure == dep, "arrival_departure_are_floored_period_indices", lambda: "%s: (arrival, departure) = (%r, %r), integer arithmetic gives (%r, %r) [conn %d ms, disc %d ms, start %d ms, period %r]" % (who, ev.arrival, ev.departure, a, dep, d["conn_ms"], d["disc_ms"], spec["start_ms"], period))
        require(ev.departure >= ev.arrival, "departure_not_before_arrival", lambda: "%s: departure %r < arrival %r" % (who, ev.departure, ev.arrival))
        req = d["kwh"]
        if spec["force_feasible"]:
            cap_e = pmax * (dep - a) * period / 60.0
            if cap_e < req:
                labels.add("force_feasible_cap_applied")
                nt = True
            req = min(req, cap_e)
        require(abs(ev.requested_energy - req) <= 1e-12 * (1 + abs(req)), "requested_energy", lambda: "%s: requested %r kWh, expected %r" % (who, ev.requested_energy, req))
        require(ev.session_id == d["session"] and ev.station_id == d["space"], "ids_copied", lambda: "%s: ids %r/%r" % (who, ev.session_id, ev.station_id))
        require(ev.energy_delivered == 0 and ev.estimated_departure == ev.departure, "fresh_session_state", lambda: "%s: delivered %r est %r" % (who, ev.energy_delivered, ev.estimated_departure))
        check_battery(spec, ev, req, dep - a, labels, who)
        if fit:
            call = rec_fn.calls[k]
            require(abs(call[0] - req) <= 1e-12 * (1 + req) and call[1] == dep - a and call[2] == V and call[3] == period, "capacity_fn_arguments", lambda: "%s: capacity function called with %r, expected (%r, %r, %r, %r)" % (who, call, req, dep - a, V, period))
            if dep - a >= 1 and pmax == 32 * V / 1000:
                cls, attrs = battery_dump(ev)
                got = full_rate_delivery(attrs["_capacity"], attrs["_init_charge"], V, period, dep - a)
                require(abs(got - req) <= 1e-6, "full_rate_charging_delivers_request", lambda: "%s: charging at 32 A for the %d-period stay delivers %r kWh, requested %r" % (who, dep - a, got, req))
                labels.add("fit_checked_on_ev")
        if (d["disc_ms"] - d["conn_ms"]) % (60000 * period) != 0:
            nt = True
        if prev is not None and d["conn_ms"] >= prev[0]:
            require(ev.arrival >= prev[1], "order_preserving", lambda: "%s arrives at %r before an earlier connection at %r" % (who, ev.arrival, prev[1]))
        prev = (d["conn_ms"], ev.arrival)
        if d["disc_ms"] == d["conn_ms"]:
            labels.add("zero_length_stay")
        if ev.departure == ev.arrival:
            labels.add("zero_period_stay")
        if d["conn_ms"] % (60000 * period) == 0 or d["disc_ms"] % (60000 * period) == 0:
            labels.add("instant_on_period_boundary")
        if d["conn_ms"] % 1000:
            labels.add("sub_second")
    labels.add("zone_" + spec["docs"][0]["zone"].split("/")[-1])
    labels.add("tz_" + spec.get("tzkind", "pytz"))
    if spec.get("tzkind") == "zoneinfo":
        import zoneinfo

        z = zoneinfo.ZoneInfo(spec["docs"][0]["zone"])
        for d in spec["docs"]:
            o1 = datetime.fromtimestamp(d["conn_ms"] // 1000, z).utcoffset()
            o2 = datetime.fromtimestamp(d["disc_ms"] // 1000, z).utcoffset()
            if o1 != o2:
                labels.add("zoneinfo_session_across_dst")
                if "max_len_cap_applied" in labels or spec["max_len"] is not None:
                    labels.add("zoneinfo_session_across_dst_with_max_len")
    if fit:
        labels.add("fit")
    if spec["via_queue"]:
        labels.add("via_generate_events")
    rec.case(spec, labels, nt)


DST_OF = {"America/Los_Angeles": [1552212000, 1572771600], "Europe/Berlin": [1553994000, 1572138000], "Australia/Lord_Howe": [1570289400, 1554564600]}
DST_INSTANTS = [1552212000, 1572771600, 1553994000, 1572138000, 1570289400, 1554564600]  # LA, Berlin, Lord Howe changes (2019)


@st.composite
def doc_cases(draw):
    period = draw(st.sampled_from([1, 5, 10, 15, 60, 7, 45]))
    P = 60 * period
    zone = draw(st.sampled_from(ZONES))
    base = draw(st.one_of(st.integers(1_400_000_000, 1_700_000_000), st.sampled_from(DST_INSTANTS).map(lambda x: x - 7200)))
    span_dst = zone in DST_OF and draw(st.integers(0, 3)) == 0
    repeated_hour = False
    if span_dst:
        # sessions that begin before a DST change of their own zone and end after it
        base = draw(st.sampled_from(DST_OF[zone])) - draw(st.integers(600, 7200))
        if draw(st.integers(0, 2)) == 0:
            repeated_hour = True
            base = draw(st.sampled_from(DST_OF[zone])) - draw(st.integers(60, 1700))
    start_ms = (base - draw(st.sampled_from([0, 1, P - 1, P, 3 * P + 17, 86400]))) * 1000 + draw(st.sampled_from([0, 0, 1, 500, 999]))
    fit = draw(st.integers(0, 3)) == 0
    docs = []
    t = base
    for i in range(draw(st.integers(1, 4))):
        # aim connection times at period boundaries
        conn = t + (draw(st.integers(0, 30)) if repeated_hour else draw(st.one_of(st.integers(0, 4 * P), st.sampled_from([0, P - (t % P), P - (t % P) - 1, P - (t % P) + 1]))))
        stay = draw(st.one_of(st.sampled_from([P, 2 * P - 1, 2 * P + 1, 7 * P, 3600 * 5, 86400 * 2] + ([] if fit else [0, 1, 30, P - 1])), st.integers(P if fit else 0, 40 * P)))
        if span_dst:
            stay = draw(st.integers(7800, 6 * 3600))
            if repeated_hour:
                # plugged in during the hour before clocks go back, unplugged exactly one hour
                # later: the same wall-clock reading twice
                stay = 3600
        if fit:
            # the fit's domain is a stay of at least one period (DESIGN.md section 5)
            while (conn + stay) // P - conn // P < 1:
                stay += P
        ms_c = draw(st.sampled_from([0, 0, 1, 250, 999]))
        ms_d = draw(st.sampled_from([0, 0, 1, 250, 999]))
        conn_ms, disc_ms = conn * 1000 + ms_c, (conn + stay) * 1000 + ms_d
        if disc_ms < conn_ms:
            disc_ms = conn_ms
        docs.append({"session": "ses-%d" % i, "space": draw(st.sampled_from(["CA-303", "AG-1F01", "sp-%d" % i])), "conn_ms": conn_ms, "disc_ms": disc_ms, "zone": zone, "kwh": draw(st.sampled_from([0.1, 0.75, 3.0, 14.2, 55.0]))})
        t = conn if not span_dst else t
    V = draw(st.sampled_from([208.0, 240.0]))
    kind = "two" if fit else draw(st.sampled_from([None, None, "ideal", "two"]))
    bp = None
    if kind == "ideal":
        bp = {"kind": "ideal"}
    elif kind == "two":
        bp = {"kind": "two", "fit": fit, "kwargs": draw(st.sampled_from([None, {"transition_soc": 0.7}, {"noise_level": 0.25}]))}
    max_len = draw(st.sampled_from([None, None, 1, 12, 100]))
    if span_dst or draw(st.integers(0, 3)) == 0:
        # a cap within an hour of some document's true stay (in periods)
        dd = draw(st.sampled_from(docs))
        k = dd["disc_ms"] // (P * 1000) - dd["conn_ms"] // (P * 1000)
        h = max(1, int(60 / period))
        max_len = max(1, k + draw(st.integers(-h, h)))
    return {
        "period": period,
        "voltage": V,
        "max_power": draw(st.sampled_from([3.3, 6.6, 7.0, 32 * V / 1000, 32 * V / 1000])),
        "max_len": max_len,
        "tzkind": "zoneinfo" if (repeated_hour and draw(st.integers(0, 3)) > 0) else draw(st.sampled_from(["pytz", "pytz", "zoneinfo", "fixed"])),
        "force_feasible": draw(st.booleans()),
        "battery_params": bp,
        "start_ms": min(start_ms, docs[0]["conn_ms"]),
        "start_zone": draw(st.sampled_from(ZONES)),
        "docs": docs,
        "via_queue": draw(st.booleans()),
    }


# --------------------------------------------------------------------------- stochastic


class StubEvents(StochasticEvents):
    """The designed extension point: sample() supplied by the test input."""

    def __init__(self, days, integer=False):
        super().__init__()
        # hourly-binned samples may well come as an integer matrix
        self.days = [np.array(d, dtype=int if integer else float).reshape(-1, 3) for d in days]
        self.i = 0

    def sample(self, n_samples):
        m = self.days[self.i]
        self.i += 1
        assert len(m) == n_samples
        return m.copy()


def floor_guard(x_exact):
    """floor of an exact rational, plus whether it is within 1e-9 (relative) of an integer."""
    fl = math.floor(x_exact)
    near = min(x_exact - fl, fl + 1 - x_exact)
    return fl, near <= F(1, 10 ** 9) * max(1, abs(x_exact))


def prop_stochastic(spec, rec):
    period, V, pmax = spec["period"], spec["voltage"], spec["max_power"]
    days = spec["days"]
    rec_fn = Recorder()
    params = make_params(spec, rec_fn)
    gen = StubEvents([d for d in days if len(d) > 0], integer=bool(spec.get("int_matrix")))
    import contextlib
    import io

    fit = bool(spec["battery_params"] and spec["battery_params"].get("fit"))
    with warnings.catch_warnings(), contextlib.redirect_stdout(io.StringIO()):
        warnings.simplefilter("ignore")
        try:
            q = gen.generate_events([len(d) for d in days], period, V, pmax, max_len=spec["max_len"], battery_params=params, force_feasible=spec["force_feasible"])
        except ValueError as e:
            require(fit and "No feasible battery" in str(e), "conversion_raised", lambda: "conversion raised %r" % (e,))
            rows = []
            for dnum, d in enumerate(days):
                for arr, dur, kwh in d:
                    if arr + 24 * dnum < 0 or dur <= 0 or kwh <= 0:
                        continue
                    if spec["max_len"] is not None and dur > spec["max_len"]:
                        dur = float(spec["max_len"])
                    r = min(pmax * dur, kwh) if spec["force_feasible"] else kwh
                    pph = F(60) / F(period)
                    a_fl, a_amb = floor_guard(F(arr + 24 * dnum) * pph)
                    d_fl, d_amb = floor_guard((F(arr + 24 * dnum) + F(dur)) * pph)
                    # a float floor next to an integer may legitimately fall on either side
                    stays = {d - a for a in ([a_fl - 1, a_fl, a_fl + 1] if a_amb else [a_fl]) for d in ([d_fl - 1, d_fl, d_fl + 1] if d_amb else [d_fl])}
                    rows.append((r, min(stays)))
            judge_fit_refusal(spec, rows, rec)
            rec.case(spec, {"fit_infeasible"}, False)
            return
    got = {e.ev.session_id: (ts, e) for ts, e in q.queue}
    labels = set()
    rows = []
    for dnum, d in enumerate(days):
        for r in d:
            rows.append((dnum, r))
    expected = 0
    nt = False
    call_idx = 0
    for idx, (dnum, (arr, dur, kwh)) in enumerate(rows):
        sid = "session_%d" % idx
        arr_h = arr + 24 * dnum
        if arr_h < 0 or dur <= 0 or kwh <= 0:
            require(sid not in got, "invalid_row_skipped", lambda: "row %d (%r) is invalid but produced a session" % (idx, (arr, dur, kwh)))
            labels.add("invalid_row")
            continue
        expected += 1
        require(sid in got, "valid_row_converted", lambda: "row %d (%r) produced no session" % (idx, (arr, dur, kwh)))
        ts, e = got[sid]
        ev = e.ev
        if spec["max_len"] is not None and dur > spec["max_len"]:
            dur = float(spec["max_len"])  # hours: pinned by the existing tests
            labels.add("max_len_cap_applied")
            nt = True
        req = kwh
        if spec["force_feasible"]:
            if pmax * dur < req:
                labels.add("force_feasible_cap_applied")
                nt = True
            req = min(pmax * dur, req)
        pph = F(60) / F(period)
        a_fl, a_amb = floor_guard(F(arr_h) * pph)
        d_fl, d_amb = floor_guard((F(arr_h) + F(dur)) * pph)
        ok_a = ev.arrival == a_fl or (a_amb and ev.arrival in (a_fl - 1, a_fl + 1))
        ok_d = ev.departure == d_fl or (d_amb and ev.departure in (d_fl - 1, d_fl + 1))
        if a_amb or d_amb:
            rec.count("ambiguous_floor")
        require(ok_a and ok_d, "arrival_departure_are_floored_period_indices", lambda: "row %d: (arrival, departure) = (%r, %r), floor(hours*60/period) gives (%r, %r)" % (idx, ev.arrival, ev.departure, a_fl, d_fl))
        require(ev.departure >= ev.arrival, "departure_not_before_arrival", lambda: "row %d: departure %r < arrival %r" % (idx, ev.departure, ev.arrival))
        require(ts == ev.arrival and e.event_type == "Plugin", "plugin_event_at_arrival", lambda: "row %d: event at %r for arrival %r" % (idx, ts, ev.arrival))
        require(abs(ev.requested_energy - req) <= 1e-12 * (1 + req), "requested_energy", lambda: "row %d: requested %r, expected %r" % (idx, ev.requested_energy, req))
        require(ev.station_id == "station_%d" % idx, "ids_by_row_index", lambda: "row %d: station id %r" % (idx, ev.station_id))
        check_battery(spec, ev, req, ev.departure - ev.arrival, labels, "row %d" % idx)
        if fit:
            call = rec_fn.calls[call_idx]
            call_idx += 1
            require(abs(call[0] - req) <= 1e-12 * (1 + req) and call[1] == ev.departure - ev.arrival and call[2] == V and call[3] == period, "capacity_fn_arguments", lambda: "row %d: capacity function called with %r, expected (%r, %r periods, %r, %r)" % (idx, call, req, ev.departure - ev.arrival, V, period))
        if (F(dur) * pph).denominator != 1:
            nt = True
    require(len(got) == expected, "one_session_per_valid_row", lambda: "%d sessions for %d valid rows" % (len(got), expected))
    if spec.get("int_matrix"):
        labels.add("integer_sample_matrix")
    if len(days) > 1:
        labels.add("multi_day")
    if any(len(d) == 0 for d in days):
        labels.add("empty_day")
    if fit:
        labels.add("fit")
    rec.case(spec, labels, nt)


@st.composite
def stochastic_cases(draw):
    period = draw(st.sampled_from([1, 5, 10, 15, 60, 7, 8, 45, 2.5]))
    fit = draw(st.integers(0, 3)) == 0
    ndays = draw(st.integers(1, 3))
    days = []
    for _ in range(ndays):
        rows = []
        for _ in range(draw(st.integers(0, 3))):
            arr = draw(st.one_of(st.floats(0, 23.99).map(lambda x: round(x, 4)), st.integers(0, 23 * 60 // period).map(lambda k: k * period / 60.0)))
            dur = draw(st.one_of(st.floats(0.25 if fit else 0.01, 30).map(lambda x: round(x, 4)), st.integers(1, 100).map(lambda k: k * period / 60.0)))
            if fit and dur * 60 / period < 2:
                dur = 2 * period / 60.0
            kwh = draw(st.sampled_from([0.6, 3.0, 14.2, 40.0]))
            bad = 0 if fit else draw(st.integers(0, 9))
            if bad == 0 and not fit:
                which = draw(st.integers(0, 2))
                arr, dur, kwh = [(-1.0, dur, kwh), (arr, 0.0, kwh), (arr, dur, 0.0)][which]
            rows.append([arr, dur, kwh])
        days.append(rows)
    if not any(len(d) for d in days):
        days[0] = [[8.0, 2.0 if not fit else max(2.0, 2 * period / 60.0), 3.0]]
    V = draw(st.sampled_from([208.0, 240.0]))
    kind = "two" if fit else draw(st.sampled_from([None, None, "ideal", "two"]))
    bp = None
    if kind == "ideal":
        bp = {"kind": "ideal"}
    elif kind == "two":
        bp = {"kind": "two", "fit": fit, "kwargs": draw(st.sampled_from([None, {"transition_soc": 0.7}]))}
    int_matrix = draw(st.integers(0, 3)) == 0
    if int_matrix:
        # whole hours and whole kWh, handed over as an integer matrix
        days = [[[int(r[0]), int(max(1, round(r[1]))) if r[1] > 0 else 0, int(max(1, round(r[2]))) if r[2] > 0 else 0] for r in d] for d in days]
    return {"period": period, "voltage": V, "max_power": draw(st.sampled_from([3.3, 6.6, 32 * V / 1000])), "max_len": draw(st.sampled_from([None, None, 1, 3, 12])), "force_feasible": draw(st.booleans()), "battery_params": bp, "days": days, "int_matrix": int_matrix}


# --------------------------------------------------------------------------- clipping


class StubMixture:
    """Stands in for a trained sklearn GaussianMixture: sample(n) -> (matrix, labels)."""

    def __init__(self, rows):
        self.rows = [list(r) for r in rows]
        self.calls = []

    def sample(self, n):
        self.calls.append(n)
        return np.array(self.rows[:n], dtype=float).reshape(-1, 3), np.zeros(n)


def prop_clipping(spec, rec):
    from acnportal.acnsim.events.stochastic_events import GaussianMixtureEvents

    b = spec["bounds"]
    rows = spec["rows"]
    gen = GaussianMixtureEvents(b["amin"], b["amax"], b["dmin"], b["dmax"], b["emin"], b["emax"], pretrained_model=StubMixture(rows))
    want = [[min(max(r[0], b["amin"]), b["amax"]), min(max(r[1], b["dmin"]), b["dmax"]), min(max(r[2], b["emin"]), b["emax"])] for r in rows]
    raw = np.array(rows, dtype=float).reshape(-1, 3)
    out = gen.clip_samples(raw)
    require(out is raw or np.array_equal(out, raw), "clip_returns_the_clipped_matrix", "clip_samples returned something else than the (in place) clipped matrix")
    require(np.array_equal(np.asarray(out, dtype=float), np.array(want, dtype=float).reshape(-1, 3)), "clip_projects_into_bounds", lambda: "clip_samples(%r) with bounds %r = %r, expected %r" % (rows, b, np.asarray(out).tolist(), want))
    got = gen.sample(len(rows))
    require(np.array_equal(np.asarray(got, dtype=float).reshape(-1, 3), np.array(want, dtype=float).reshape(-1, 3)), "sample_is_clipped", lambda: "sample() = %r, clipped model output %r" % (np.asarray(got).tolist(), want))
    require(len(np.asarray(gen.sample(0)).reshape(-1)) == 0, "sample_zero", "sample(0) is not empty")
    # through generate_events: every clipped row is a valid session (bounds are positive)
    period = spec["period"]
    import contextlib
    import io

    gen2 = GaussianMixtureEvents(b["amin"], b["amax"], b["dmin"], b["dmax"], b["emin"], b["emax"], pretrained_model=StubMixture(rows))
    with contextlib.redirect_stdout(io.StringIO()):
        q = gen2.generate_events([len(rows)], period, 208.0, 6.6)
    evs = {e.ev.session_id: e.ev for _, e in q.queue}
    require(len(evs) == len(rows), "one_session_per_clipped_row", lambda: "%d sessions for %d clipped rows" % (len(evs), len(rows)))
    changed = False
    for i, w in enumerate(want):
        ev = evs["session_%d" % i]
        pph = F(60) / F(period)
        a_fl, a_amb = floor_guard(F(w[0]) * pph)
        d_fl, d_amb = floor_guard((F(w[0]) + F(w[1])) * pph)
        require((ev.arrival == a_fl or (a_amb and abs(ev.arrival - a_fl) == 1)) and (ev.departure == d_fl or (d_amb and abs(ev.departure - d_fl) == 1)), "clipped_row_converted", lambda: "row %d clipped to %r: (arrival, departure) = (%r, %r), expected (%r, %r)" % (i, w, ev.arrival, ev.departure, a_fl, d_fl))
        require(abs(ev.requested_energy - w[2]) <= 1e-12 * (1 + w[2]), "clipped_energy", lambda: "row %d: requested %r, clipped energy %r" % (i, ev.requested_energy, w[2]))
        if w != list(map(float, rows[i])):
            changed = True
    rec.case(spec, {"clipping"} | ({"some_value_clipped"} if changed else set()), changed)


@st.composite
def clipping_cases(draw):
    amin = draw(st.sampled_from([0.0, 0.0, 6.0]))
    bounds = {"amin": amin, "amax": draw(st.sampled_from([24.0, 20.0, amin + 1.0])), "dmin": draw(st.sampled_from([0.0833, 0.5])), "dmax": draw(st.sampled_from([48.0, 8.0])), "emin": draw(st.sampled_from([0.5, 2.0])), "emax": draw(st.sampled_from([150.0, 20.0]))}
    val = st.one_of(st.floats(-10, 200).map(lambda x: round(x, 3)), st.sampled_from([0.0, 24.0, -1.0, 0.0833, 48.0, 150.0, 0.5]))
    rows = draw(st.lists(st.tuples(val, val, val).map(list), min_size=1, max_size=5))
    return {"bounds": bounds, "rows": rows, "period": draw(st.sampled_from([1, 5, 7, 15]))}


# --------------------------------------------------------------------------- the fit itself

CAPS = [8, 24, 40, 60, 85, 100]


def prop_fit(spec, rec):
    req, stay, V, period = spec["request"], spec["stay"], spec["voltage"], spec["period"]
    labels = {"period_%s" % period}
    try:
        with warnings.catch_warnings():
            warnings.simplefilter("ignore")
            cap, init = batt_cap_fn(req, stay, V, period)
    except ValueError:
        # acceptable only if no listed capacity >= request can deliver the request from empty
        for c in CAPS:
            if c >= req:
                can = full_rate_delivery(c, 0.0, V, period, stay)
                require(can < req + 1e-6, "fit_refused_a_feasible_request", lambda: "batt_cap_fn(%r, %r, %r, %r) found no battery, but a %r kWh battery charged from empty delivers %r kWh in the stay" % (req, stay, V, period, c, can))
        labels.add("infeasible")
        rec.case(spec, labels, False)
        return
    cap, init = float(cap), float(init)
    require(0 <= init <= cap, "fit_init_within_capacity", lambda: "batt_cap_fn(%r, %r, %r, %r) = (%r, %r)" % (req, stay, V, period, cap, init))
    require(cap >= req and cap - init >= req - 1e-6, "fit_free_capacity_covers_request", lambda: "batt_cap_fn(%r, %r, %r, %r) = (%r, %r): free capacity %r < request" % (req, stay, V, period, cap, init, cap - init))
    got = full_rate_delivery(cap, init, V, period, stay)
    require(abs(got - req) <= 1e-6, "fit_full_rate_delivers_request", lambda: "batt_cap_fn(%r, %r, %r, %r) = (%r, %r): charging at 32 A for the stay delivers %r kWh" % (req, stay, V, period, cap, init, got))
    deliverable = 32 * V / 1000 * stay * period / 60
    if req < 0.5 * deliverable:
        labels.add("small_request")
    if init / cap >= 0.8:
        labels.add("starts_in_rampdown")
    if 60 % period:
        labels.add("period_not_dividing_60")
    if stay > 4000:
        labels.add("stay_of_more_than_4000_periods")
    rec.maximum("fit_error_kwh", abs(got - req))
    rec.case(spec, labels, req < 0.5 * deliverable or bool(60 % period))


@st.composite
def fit_cases(draw):
    V = draw(st.sampled_from([120.0, 208.0, 240.0, 277.0]))
    period = draw(st.sampled_from([1, 5, 5, 7, 8, 9, 10, 15, 45, 60]))
    stay = draw(st.one_of(st.integers(1, 12), st.integers(1, 300)))
    if draw(st.sampled_from([False] * 14 + [True])):
        # a car left at the airport: days to months of 1- to 15-minute periods
        stay = draw(st.one_of(st.integers(301, 6000), st.integers(4000, 40000)))
    deliverable = 32 * V / 1000 * stay * period / 60
    frac = draw(st.one_of(st.floats(0.001, 1.0), st.sampled_from([0.001, 0.01, 0.5, 0.9, 0.999, 1.0])))
    req = round(min(deliverable, 110.0) * frac, 6)
    return {"request": max(req, 1e-4), "stay": stay, "voltage": V, "period": period}


def subchecks(tier):
    return [
        Given("documents", doc_cases(), prop_documents, quick=1500, thorough=200000, floors={"max_len_cap_applied": 0.076, "force_feasible_cap_applied": 0.1, "fit": 0.07, "sub_second": 0.2, "instant_on_period_boundary": 0.057, "zero_period_stay": 0.03, "zoneinfo_session_across_dst_with_max_len": 0.01, "tz_zoneinfo": 0.089}),
        Given("stochastic", stochastic_cases(), prop_stochastic, quick=800, thorough=100000, floors={"invalid_row": 0.058, "multi_day": 0.258, "empty_day": 0.1, "fit": 0.07, "max_len_cap_applied": 0.076, "integer_sample_matrix": 0.1}),
        Given("clipping", clipping_cases(), prop_clipping, quick=400, thorough=40000, floors={"some_value_clipped": 0.3}, jobs_quick=2),
        Given("capacity_fit", fit_cases(), prop_fit, quick=1500, thorough=200000, floors={"small_request": 0.2, "period_not_dividing_60": 0.15, "starts_in_rampdown": 0.1, "stay_of_more_than_4000_periods": 0.01}),
    ]


def replay(subcheck, spec, rec):
    return {"documents": prop_documents, "stochastic": prop_stochastic, "capacity_fit": prop_fit, "clipping": prop_clipping}[subcheck](spec, rec)
