"""C16 - predefined site networks never admit more power than transformer ratings."""
import cmath
import math

import hypothesis
import numpy as np
from hypothesis import strategies as st

from acnportal.acnsim import sites

from ..runner import Exhaustive, Given, require

ID = "C16"
RULE = (
    "For each site (caltech_acn, jpl_acn, office001_acn) x EVSE type (basic / real) x transformer "
    "capacities drawn from (10, 400) kW - low enough that the transformer, not the 32 A EVSE "
    "limit, binds - Hypothesis generates a weight vector (uniform, sparse, one-phase-heavy, "
    "balanced with jitter; the network comes from keyword or positional arguments, the deprecated "
    "CaltechACN alias, as ChargingNetwork or StochasticNetwork, with EVSE voltage 208/240/120, and in "
    "a quarter of the cases a lenient what-if query of the same shape was asked first) over the stations behind one transformer and an ascent order; the "
    "schedule is scaled by bisection on network.is_feasible (phase-aware, or linear=True in a "
    "quarter of the cases; on the network as built or, in a quarter of the cases, as restored from "
    "its JSON dump) to the feasibility frontier, improved by coordinate ascent (each "
    "station raised as far as is_feasible allows, up to 32 A) and, for real EVSE types, snapped to "
    "allowable levels; hypothesis.target steers towards P/capacity = 1. Oracle for every schedule "
    "the network ACCEPTS (physical, angle-free): per transformer 120*sqrt(3)*sum(I)/1000 <= "
    "capacity*(1+1e-6) kW with station membership transcribed from the site documentation; pod "
    "sums (Caltech AV / CC pods <= 80 A) and per-phase line currents of every sub-panel (JPL "
    "100 A / 225 A) from an independent delta-connection phasor computation. The bound is tight at "
    "balance, so a wrong angle, sign, membership or limit in the site algebra opens a gap the "
    "frontier search enters. Structural sub-check (exhaustive over sites x EVSE types): station "
    "set equals the documented one (54 / 52 / 8, no duplicates), every angle in {30,-90,150} and "
    "equal to the documented line-to-line pair, every station has a non-zero coefficient in a "
    "transformer 'Secondary' constraint. Non-trivial = accepted schedule with P/capacity >= 0.9."
)
ASSUMPTIONS = [
    "nominal 120 V line-to-neutral / 208 V line-to-line, unity power factor: P = 120*sqrt(3)*sum(I)",
    "membership tables in acnverif/props/c16.py are a transcription of the documented topology",
]

SQ3 = math.sqrt(3.0)
ANG = {"ab": 30.0, "bc": -90.0, "ca": 150.0}


def _ca(nums):
    return ["CA-%d" % i for i in nums]


# ---- documented topology (independent transcription) ---------------------------------------
CAL_AV_POD = ["CA-324", "CA-325", "CA-326", "CA-327", "CA-489", "CA-490", "CA-491", "CA-492"]
CAL_CC_POD = ["CA-322", "CA-493", "CA-496", "CA-320", "CA-495", "CA-321", "CA-323", "CA-494"]
CALTECH = {
    "ab": _ca([308, 508, 303, 513, 310, 506, 316, 500, 318, 498]) + CAL_AV_POD + CAL_CC_POD,
    "bc": _ca([304, 512, 305, 511, 313, 503, 311, 505, 317, 499, 148, 149, 212, 213]),
    "ca": _ca([307, 509, 309, 507, 306, 510, 315, 501, 319, 497, 312, 504, 314, 502]),
}
OFFICE = {"ab": ["01", "04", "07"], "bc": ["02", "05", "08"], "ca": ["03", "06"]}


def _ag(floor, nums):
    return ["AG-%dF%02d" % (floor, i) for i in nums]


JPL_PANELS = {
    "sp1": {"limit": 100.0, "ab": _ag(1, [12, 14]), "bc": [], "ca": _ag(1, [11, 13])},
    "sp2": {"limit": 100.0, "ab": _ag(1, [3, 6]), "bc": _ag(1, [1, 4]), "ca": _ag(1, [2, 5])},
    "main1": {"limit": None, "ab": _ag(1, [10]), "bc": _ag(1, [7, 9]), "ca": _ag(1, [8])},
    "third": {"limit": 225.0, "ab": _ag(3, [16, 17, 20, 23, 25, 26, 29, 33]), "bc": _ag(3, [18, 21, 27, 30, 31]), "ca": _ag(3, [15, 19, 22, 24, 28, 32])},
    "fourth": {"limit": 225.0, "ab": _ag(4, [35, 36, 39, 42, 44, 45, 48, 52]), "bc": _ag(4, [37, 40, 46, 49, 50]), "ca": _ag(4, [34, 38, 41, 43, 47, 51])},
}


def topology(site):
    """-> {"pairs": {station: pair}, "transformers": {name: [stations]}, "pods": {name: (stations, limit)},
    "panels": {name: ({pair: stations}, limit)}}"""
    if site == "caltech":
        pairs = {s: p for p, ss in CALTECH.items() for s in ss}
        return {"pairs": pairs, "transformers": {"main": list(pairs)}, "pods": {"AV Pod": (CAL_AV_POD, 80.0), "CC Pod": (CAL_CC_POD, 80.0)}, "panels": {}, "count": 54}
    if site == "office001":
        pairs = {s: p for p, ss in OFFICE.items() for s in ss}
        return {"pairs": pairs, "transformers": {"main": list(pairs)}, "pods": {}, "panels": {}, "count": 8}
    pairs, first, upper, panels = {}, [], [], {}
    for name, pan in JPL_PANELS.items():
        for p in ("ab", "bc", "ca"):
            for s in pan[p]:
                pairs[s] = p
                (first if name in ("sp1", "sp2", "main1") else upper).append(s)
        if pan["limit"] is not None:
            panels[name] = ({p: pan[p] for p in ("ab", "bc", "ca")}, pan["limit"])
    return {"pairs": pairs, "transformers": {"first": first, "third_fourth": upper}, "pods": {}, "panels": panels, "count": 52}


def build(spec):
    """The site network through one of its public entry points: keyword or positional arguments,
    the deprecated CaltechACN alias, ChargingNetwork or StochasticNetwork as network type, an
    EVSE voltage other than the default (the transformer ratings are defined at nominal voltage)."""
    import contextlib
    import io

    from acnportal.acnsim import ChargingNetwork
    from acnportal.contrib.acnsim import StochasticNetwork

    entry = spec.get("entry", "keyword")
    ntype = StochasticNetwork if spec.get("stochastic_type") else ChargingNetwork
    volt = spec.get("evse_voltage", 208)
    basic = spec["basic"]
    spec = dict(spec, caps={g: (np.float64(0.0) if c == "np0" else c) for g, c in spec["caps"].items()})
    with contextlib.redirect_stdout(io.StringIO()):
        if spec["site"] == "caltech":
            cap = spec["caps"]["main"]
            if entry == "alias":
                net = sites.CaltechACN(basic_evse=basic, voltage=volt, transformer_cap=cap, network_type=ntype)
            elif entry == "alias_positional":
                net = sites.CaltechACN(basic, volt, cap, ntype)
            elif entry == "positional":
                net = sites.caltech_acn(basic, volt, cap, ntype)
            else:
                net = sites.caltech_acn(transformer_cap=cap, basic_evse=basic, voltage=volt, network_type=ntype)
        elif spec["site"] == "office001":
            cap = spec["caps"]["main"]
            if entry == "positional":
                net = sites.office001_acn(basic, volt, cap, ntype)
            else:
                net = sites.office001_acn(transformer_cap=cap, basic_evse=basic, voltage=volt, network_type=ntype)
        else:
            c1, c2 = spec["caps"]["first"], spec["caps"]["third_fourth"]
            if entry == "positional":
                net = sites.jpl_acn(basic, volt, c1, c2, ntype)
            else:
                net = sites.jpl_acn(first_transformer_cap=c1, third_fourth_transformer_cap=c2, basic_evse=basic, voltage=volt, network_type=ntype)
    if spec.get("json"):
        # the site model as it comes back from a saved file
        import warnings

        with warnings.catch_warnings():
            warnings.simplefilter("ignore")
            net = type(net).from_json(net.to_json())
    if spec.get("scribble"):
        # the caller has post-processed the constraint table the network handed out
        from .. import scenario as _sc

        _sc.scribble_on_table(net)
    return net


def line_currents(groups, cur):
    """Magnitudes of the three line currents of a delta-connected panel (own computation)."""
    z = {p: sum(cur.get(s, 0.0) for s in groups.get(p, [])) * cmath.exp(1j * math.radians(ANG[p])) for p in ("ab", "bc", "ca")}
    return abs(z["ab"] - z["ca"]), abs(z["bc"] - z["ab"]), abs(z["ca"] - z["bc"])


def judge(spec, topo, ids, S, what):
    spec = dict(spec, caps={g: (0.0 if c == "np0" else c) for g, c in spec["caps"].items()})
    cur = dict(zip(ids, (float(x) for x in S)))
    worst = 0.0
    for name, members in topo["transformers"].items():
        cap = spec["caps"][name]
        P = 120.0 * SQ3 * sum(cur[s] for s in members) / 1000.0
        # 1e-5 kW absolute: the network's own 1e-5 A tolerance on each of three line currents is
        # 3.6e-6 kW; it only matters for ratings near 0 kW (a transformer taken out of service)
        require(P <= cap * (1 + 1e-6) + 1e-5, "accepted_schedule_exceeds_transformer_rating", lambda: "%s: %s transformer of %s rated %.4g kW, accepted schedule draws %.6g kW" % (what, name, spec["site"], cap, P))
        worst = max(worst, P / cap if cap > 0 else 0.0)
    for name, (members, limit) in topo["pods"].items():
        tot = sum(cur[s] for s in members)
        require(tot <= limit * (1 + 1e-6) + 1e-4, "accepted_schedule_exceeds_pod_rating", lambda: "%s: %s carries %.6g A, rating %g A" % (what, name, tot, limit))
    for name, (groups, limit) in topo["panels"].items():
        for ph, mag in zip("abc", line_currents(groups, cur)):
            require(mag <= limit * (1 + 1e-6) + 1e-4, "accepted_schedule_exceeds_panel_rating", lambda: "%s: panel %s line %s carries %.6g A, rating %g A" % (what, name, ph, mag, limit))
    return worst


def levels_for(net, i):
    a = net.allowable_rates[i]
    return None if net.is_continuous[i] else [float(x) for x in a]


def prop(spec, rec):
    topo = topology(spec["site"])
    net = build(spec)
    ids = list(net.station_ids)
    n = len(ids)
    linear = spec["linear"]
    members = topo["transformers"][spec["group"]]
    idx = [ids.index(s) for s in members if s in ids]
    multi = bool(spec.get("multi"))

    def companion(S):
        """The same total behind the transformer spread evenly over its stations (the most
        benign allocation of that total), other stations unchanged."""
        U = np.array(S, dtype=float)
        U[idx] = min(32.0, float(np.sum(U[idx])) / len(idx))
        return U

    lim_before = np.array(net.magnitudes, dtype=float)
    calls = [0]

    def feas(S):
        S = np.asarray(S, dtype=float)
        calls[0] += 1
        if multi:
            # a two-period schedule: the even allocation first, then S (equal totals)
            return bool(net.is_feasible(np.column_stack([companion(S), S]), linear=linear))
        return bool(net.is_feasible(S.reshape(-1, 1), linear=linear))

    w = np.zeros(n)
    for k, i in enumerate(idx):
        w[i] = spec["weights"][k % len(spec["weights"])]
    if spec["background"]:
        for i in range(n):
            if i not in idx:
                w[i] = spec["background"]
    S = np.clip(w, 0, 1) * 32.0
    labels = {spec["site"], "basic" if spec["basic"] else "real_evse", "linear" if linear else "phase_aware", "kind_" + spec["kind"]}
    if spec.get("json"):
        labels.add("loaded_from_json")
    if spec.get("scribble"):
        labels.add("constraint_table_edited_by_caller")
    labels.add("entry_" + spec.get("entry", "keyword"))
    if spec.get("entry", "").startswith("alias"):
        labels.add("deprecated_alias_entry")
    if spec.get("stochastic_type"):
        labels.add("stochastic_network_type")
    if spec.get("evse_voltage", 208) != 208:
        labels.add("non_default_evse_voltage")
    if multi:
        labels.add("two_period_schedule_equal_totals")
    if any(c != "np0" and (not math.isfinite(c) or c > 1e5) for c in spec["caps"].values()):
        labels.add("huge_transformer_capacity")
    if any(c == "np0" or c < 5 for c in spec["caps"].values()):
        labels.add("transformer_rated_zero_or_below_one_car")
    if spec.get("prior_lenient"):
        # an earlier what-if question with generous tolerances (same shape) on the same object
        for lin in (False, True):
            net.is_feasible(np.asarray(S, dtype=float).reshape(-1, 1), linear=lin, violation_tolerance=5.0, relative_tolerance=0.25)
        labels.add("lenient_query_first")
    if spec.get("reenter"):
        # the operator re-enters one constraint of the site after the model has been queried: the
        # same expression with the same limit (or, for a Caltech pod, a derated one) through
        # update_constraint - the row moves to the end of the table, nothing else changes
        from acnportal.acnsim import Current

        feas(S)
        names = list(net.constraint_index)
        nm = names[spec["reenter"]["index"] % len(names)]
        row = net.constraints_as_df().loc[nm]
        k = names.index(nm)
        factor = spec["reenter"]["factor"] if nm in topo["pods"] else 1.0
        net.update_constraint(nm, Current({sid: float(v) for sid, v in row.items() if v != 0}), float(net.magnitudes[k]) * factor)
        if factor != 1.0:
            topo = dict(topo, pods=dict(topo["pods"]))
            topo["pods"][nm] = (topo["pods"][nm][0], topo["pods"][nm][1] * factor)
            labels.add("pod_derated_after_a_query")
        lim_before = np.array(net.magnitudes, dtype=float)
        labels.add("constraint_re_entered_after_a_query")
    worst = 0.0
    # scale to the frontier
    if not feas(S):
        lo, hi = 0.0, 1.0
        for _ in range(30):
            mid = (lo + hi) / 2
            if feas(S * mid):
                lo = mid
            else:
                hi = mid
        S = S * lo
    def judge_all(X, what):
        w = judge(spec, topo, ids, X, what)
        if multi:
            w = max(w, judge(spec, topo, ids, companion(X), what + " (first period: the same total spread evenly)"))
        return w

    worst = max(worst, judge_all(S, "scaled schedule"))
    # coordinate ascent along the generated order
    order = [idx[k % len(idx)] for k in spec["order"]] + idx
    for i in order:
        T = S.copy()
        T[i] = 32.0
        if feas(T):
            S = T
            continue
        a, b = S[i], 32.0
        for _ in range(12):
            m = (a + b) / 2
            T[i] = m
            if feas(T):
                a = m
            else:
                b = m
        S[i] = a
    if feas(S):
        worst = max(worst, judge_all(S, "frontier schedule"))
    # real EVSE types: only allowable levels can actually be applied
    if not spec["basic"]:
        R = S.copy()
        for i in range(n):
            lv = levels_for(net, i)
            if lv is not None:
                below = [x for x in lv if x <= R[i] + 1e-9]
                above = [x for x in lv if x >= R[i] - 1e-9]
                R[i] = (max(below) if below else 0.0) if spec["snap_down"] or not above else min(above)
        if feas(R):
            worst = max(worst, judge_all(R, "frontier schedule snapped to allowable levels"))
            labels.add("snapped_accepted")
    # a long horizon (a month at 5-minute steps): nothing for thousands of periods, then an
    # overload in the last hours - whatever the network reports feasible is judged column by column
    if spec.get("long_horizon"):
        T = spec["long_horizon"]
        tail = np.minimum(np.where(S > 0, S * 1.5 + 4.0, 0.0), 32.0)
        M = np.zeros((n, T))
        M[:, T - spec["long_tail"] :] = tail.reshape(-1, 1)
        if bool(net.is_feasible(M, linear=linear)):
            worst = max(worst, judge(spec, topo, ids, tail, "last %d of %d periods" % (spec["long_tail"], T)))
        labels.add("horizon_over_4096_periods")
    # a schedule that creeps upwards by a few millionths per period from the frontier schedule, for
    # tens of thousands of periods: its last columns overload the site by 10 % or more
    if spec.get("creep"):
        T = spec["creep"]
        M = np.minimum(np.outer(S, 1.0 + 8e-6 * np.arange(T)), 32.0)
        if S.any() and bool(net.is_feasible(M, linear=linear)):
            for k in (T - 1, T // 2, T // 4):
                worst = max(worst, judge(spec, topo, ids, M[:, k], "period %d of a schedule creeping upwards by 8e-6 per period" % k))
        labels.add("slowly_creeping_schedule")
    # asking does not change what is being asked about
    lim_after = np.array(net.magnitudes, dtype=float)
    require(np.array_equal(lim_before, lim_after), "query_changed_the_network_limits", lambda: "constraint limits moved by up to %r A over %d feasibility queries" % (float(np.max(np.abs(lim_after - lim_before))), calls[0]))
    hypothesis.target(min(worst, 1.5), label="power_over_capacity")
    rec.maximum("max_power_over_capacity_" + spec["site"] + "_" + spec["group"], worst)
    if worst >= 0.9:
        labels.add("near_rating")
    if worst >= 0.99:
        labels.add("at_rating")
    rec.case(spec, labels, worst >= 0.9)


@st.composite
def cases(draw):
    site = draw(st.sampled_from(["caltech", "caltech", "jpl", "jpl", "office001"]))
    topo = topology(site)
    group = draw(st.sampled_from(sorted(topo["transformers"])))
    m = len(topo["transformers"][group])
    # capacities low enough that the transformer binds before the 32 A EVSE maxima do
    full = 120.0 * SQ3 * 32.0 * m / 1000.0
    caps = {g: round(draw(st.floats(10.0, min(400.0, 0.85 * 120.0 * SQ3 * 32.0 * len(topo["transformers"][g]) / 1000.0))), 2) for g in topo["transformers"]}
    if site != "office001" and draw(st.integers(0, 5)) == 0:
        # an oversized (or unlimited) transformer: pods, sub-panels and the other transformer
        # must still be enforced
        big = draw(st.sampled_from(sorted(caps)))
        caps[big] = draw(st.sampled_from([1e6, 1e9, float("inf")]))
        if len(caps) > 1:
            group = [g for g in sorted(caps) if g != big][0]
    elif draw(st.integers(0, 7)) == 0:
        # a transformer taken out of service (rated 0 kW, also written 0.0 or as a numpy number) or
        # rated far below one charging car: nothing, or next to nothing, may flow through it
        g0 = draw(st.sampled_from(sorted(caps)))
        caps[g0] = draw(st.sampled_from([0, 0.0, "np0", 1e-3, 0.5, 3]))
        group = g0
    kind = draw(st.sampled_from(["uniform", "sparse", "phase_heavy", "balanced", "balanced"]))
    pairs = [topo["pairs"][s] for s in topo["transformers"][group]]
    if kind == "uniform":
        weights = [round(draw(st.floats(0.05, 1.0)), 3) for _ in range(m)]
    elif kind == "sparse":
        weights = [draw(st.sampled_from([0.0, 0.0, 1.0, 0.5])) for _ in range(m)]
        if not any(weights):
            weights[0] = 1.0
    elif kind == "phase_heavy":
        fav = draw(st.sampled_from(["ab", "bc", "ca"]))
        low = round(draw(st.floats(0.0, 0.5)), 3)
        weights = [1.0 if p == fav else low for p in pairs]
    else:
        # equal total per line-to-line pair, with jitter
        cnt = {p: max(1, pairs.count(p)) for p in ("ab", "bc", "ca")}
        jit = round(draw(st.floats(0.0, 0.1)), 3)
        weights = [min(1.0, (min(cnt.values()) / cnt[p]) * (1 - jit * draw(st.floats(0, 1)))) for p in pairs]
        weights = [round(x, 3) for x in weights]
    _ = full
    return {
        "site": site,
        "basic": draw(st.booleans()),
        "caps": caps,
        "group": group,
        "kind": kind,
        "weights": weights,
        "background": draw(st.sampled_from([0.0, 0.0, 0.2, 1.0])) if len(topo["transformers"]) > 1 else 0.0,
        "order": draw(st.lists(st.integers(0, 60), max_size=12)),
        "linear": draw(st.integers(0, 3)) == 0,
        "snap_down": draw(st.booleans()),
        "json": draw(st.integers(0, 3)) == 0,
        "scribble": draw(st.integers(0, 3)) == 0,
        "entry": draw(st.sampled_from(["keyword", "positional", "alias", "alias", "alias_positional"] if site == "caltech" else ["keyword", "keyword", "positional"])),
        "stochastic_type": draw(st.integers(0, 4)) == 0,
        "evse_voltage": draw(st.sampled_from([208, 208, 208, 240, 120])),
        "prior_lenient": draw(st.integers(0, 3)) == 0,
        "multi": draw(st.integers(0, 2)) == 0,
        "long_horizon": draw(st.sampled_from([None, None, None, None, None, 4097, 5000, 8640])),
        "long_tail": draw(st.sampled_from([1, 12, 60])),
        "creep": draw(st.sampled_from([None] * 7 + [12500, 20000])),
        "reenter": {"index": draw(st.integers(0, 40)), "factor": draw(st.sampled_from([1.0, 1.0, 0.8, 0.5]))} if draw(st.integers(0, 3)) == 0 else None,
    }


def structure_items(tier):
    return [{"site": s, "basic": b, "json": j, "cap": c} for s in ("caltech", "jpl", "office001") for b in (True, False) for j in (False, True) for c in (100.0, 0)]


def prop_structure(spec, rec):
    topo = topology(spec["site"])
    caps = {g: spec.get("cap", 100.0) for g in topo["transformers"]}
    net = build({"site": spec["site"], "basic": spec["basic"], "caps": caps, "json": spec.get("json")})
    ids = list(net.station_ids)
    require(len(ids) == len(set(ids)), "duplicate_station", lambda: "duplicate station ids in %s" % spec["site"])
    require(sorted(ids) == sorted(topo["pairs"]) and len(ids) == topo["count"], "station_set", lambda: "%s: stations %r differ from the documented %d" % (spec["site"], sorted(set(ids) ^ set(topo["pairs"])), topo["count"]))
    angles = net.phase_angles
    volts = net.voltages
    df = net.constraints_as_df()
    sec = [nm for nm in df.index if "Secondary" in nm]
    require(len(sec) == 3 * len(topo["transformers"]), "secondary_constraints_present", lambda: "secondary constraints %r" % sec)
    for s in ids:
        require(angles[s] in (30, -90, 150), "angle_is_line_to_line", lambda: "%s station %s angle %r" % (spec["site"], s, angles[s]))
        require(angles[s] == ANG[topo["pairs"][s]], "angle_matches_documented_pair", lambda: "%s station %s angle %r, documented pair %s" % (spec["site"], s, angles[s], topo["pairs"][s]))
        require(volts[s] == 208, "nominal_voltage", lambda: "station %s voltage %r" % (s, volts[s]))
        require(any(df.loc[nm, s] != 0 for nm in sec), "station_covered_by_transformer_constraint", lambda: "%s station %s appears in no transformer secondary constraint" % (spec["site"], s))
    # each station is behind exactly the documented transformer
    if len(topo["transformers"]) > 1:
        for g, members in topo["transformers"].items():
            tag = "First Floor" if g == "first" else "Third/Fourth"
            rows = [nm for nm in sec if nm.startswith(tag)]
            for s in ids:
                inside = any(df.loc[nm, s] != 0 for nm in rows)
                require(inside == (s in members), "station_behind_documented_transformer", lambda: "station %s %s the %s transformer constraints" % (s, "is in" if inside else "is missing from", tag))
    # EVSE types
    for i, s in enumerate(ids):
        if spec["basic"]:
            require(bool(net.is_continuous[i]) and float(net.max_pilot_signals[i]) == 32.0, "basic_evse_type", lambda: "station %s is not a 0-32 A continuous EVSE" % s)
        else:
            want = [0.0, 8.0, 16.0, 24.0, 32.0] if s in CAL_CC_POD and spec["site"] == "caltech" else [0.0] + [float(x) for x in range(6, 33)]
            require([float(x) for x in net.allowable_rates[i]] == want, "real_evse_levels", lambda: "station %s levels %r" % (s, list(net.allowable_rates[i])))
    # constraint columns follow the station order the network reports (pods, panels by name)
    for name, (members, limit) in topo["pods"].items():
        row = df.loc[name]
        require(sorted(s for s in ids if row[s] != 0) == sorted(members) and float(net.magnitudes[list(df.index).index(name)]) == limit, "pod_constraint_members", lambda: "%s: constraint %s covers %r" % (spec["site"], name, sorted(s for s in ids if row[s] != 0)))
    rec.case(spec, {spec["site"], "structure"} | ({"loaded_from_json"} if spec.get("json") else set()), True)


def subchecks(tier):
    return [
        Given("frontier", cases(), prop, quick=320, thorough=30000, floors={"near_rating": 0.2, "at_rating": 0.1, "linear": 0.1, "real_evse": 0.12, "lenient_query_first": 0.1, "deprecated_alias_entry": 0.02, "two_period_schedule_equal_totals": 0.1, "huge_transformer_capacity": 0.03, "horizon_over_4096_periods": 0.04, "constraint_table_edited_by_caller": 0.1, "slowly_creeping_schedule": 0.03, "constraint_re_entered_after_a_query": 0.04}, jobs_quick=8),
        Exhaustive("structure", structure_items, prop_structure, jobs_quick=2),
    ]


def replay(subcheck, spec, rec):
    if subcheck == "structure":
        return prop_structure(spec, rec)
    return prop(spec, rec)
