"""C17 - tariff lookup is total, unambiguous and aligned with simulation time."""
import calendar
import json
import os
from datetime import date, datetime, timedelta
from fractions import Fraction

import numpy as np
from hypothesis import strategies as st

import acnportal.acnsim as acnsim
from acnportal.acnsim import EV, EVSE, Battery, ChargingNetwork, EventQueue, PluginEvent, Simulator
from acnportal.algorithms import BaseAlgorithm
from acnportal.signals.tariffs import TimeOfUseTariff
from acnportal.signals.tariffs import tou_tariff as _tt

from ..runner import Exhaustive, Given, require

ID = "C17"
RULE = (
    "calendar_grid: for each of the five bundled tariff files and each of the 14 calendar types "
    "(leap/non-leap x weekday of Jan 1, one representative year each, two years sharing one tariff "
    "object), EVERY day of the year at every breakpoint, +-1 s, +-1 min, 00:00:00 and 23:59:59 (quick) "
    "or at EVERY minute of the day (thorough, exhaustive). Oracle: an independent parser of the "
    "JSON (own season test incl. wrap-around, own weekday mask, breakpoints as exact fractions of "
    "seconds) requiring exactly one matching schedule, the price of the latest breakpoint <= time of "
    "day and that schedule's demand charge. vectors: Hypothesis-drawn (start, n<=600, period in "
    "{1,5,7.5,15,60}) price vectors vs per-instant lookups, on an object warmed up with other years. "
    "interface: generated small simulations whose scheduler records Interface.get_prices / "
    "get_demand_charge for start in {None, 0, k}; energy_cost and demand_charge vs "
    "sum(price*power*dt) and rate(start)*peak power recomputed from the recorded rates. Non-trivial "
    "= a day on or next to a season boundary or a weekday/weekend change (grid); a vector crossing "
    "midnight or a breakpoint; a simulation in which prices change; distinct by spec hash."
)
ASSUMPTIONS = [
    "the oracle reads the same bundled JSON files (prices themselves are not cross-checked against the utilities' publications)",
    "sub-second parts of an instant are ignored by the lookup (documented resolution: seconds)",
    "naive datetimes",
]

TARIFFS = [
    "pge_a10_tou_aug_2019",
    "sce_tou_ev_4_march_2019",
    "sce_tou_ev_4_march_2019_tou_periods_shifted",
    "sce_tou_ev_8_june_2019",
    "sce_tou_ev_8_oct_2018",
]
TARIFF_DIR = os.path.join(os.path.dirname(_tt.__file__), "tariff_schedules")


# ------------------------------------------------------------------ independent parser


class RefTariff:
    def __init__(self, name):
        with open(os.path.join(TARIFF_DIR, name + ".json")) as f:
            doc = json.load(f)
        self.schedules = []
        for s in doc["schedule"]:
            start = tuple(int(x) for x in s["effective_start"].split("-"))
            end = tuple(int(x) for x in s["effective_end"].split("-"))
            mask = {"WEEKDAYS": (0, 1, 2, 3, 4), "WEEKENDS": (5, 6), "ALL": (0, 1, 2, 3, 4, 5, 6)}[s["dow_mask"]]
            bps = sorted((Fraction(t) * 3600, float(p)) for t, p in zip(s["times"], s["tariffs"]))
            self.schedules.append({"id": s["id"], "start": start, "end": end, "mask": mask, "bps": bps, "dc": s["demand_charge"]})

    def matching(self, d):
        md = (d.month, d.day)
        out = []
        for s in self.schedules:
            if s["start"] <= s["end"]:
                in_season = s["start"] <= md <= s["end"]
            else:  # wraps the new year
                in_season = md >= s["start"] or md <= s["end"]
            if in_season and d.weekday() in s["mask"]:
                out.append(s)
        return out

    def lookup(self, dt):
        m = self.matching(dt)
        require(len(m) == 1, "exactly_one_schedule", lambda: "%d schedules of the tariff file apply on %s (%s)" % (len(m), dt.date(), [s["id"] for s in m]))
        s = m[0]
        sec = dt.hour * 3600 + dt.minute * 60 + dt.second
        price = None
        for t, p in s["bps"]:
            if t <= sec:
                price = p
        require(price is not None, "no_breakpoint", "tariff schedule %s has no breakpoint at 0" % s["id"])
        return price, s["dc"], s

    def breakpoints_seconds(self):
        out = set()
        for s in self.schedules:
            for t, _ in s["bps"]:
                out.add(int(t))
        return sorted(out)


_REF = {}
_OBJ = {}


def ref(name):
    if name not in _REF:
        _REF[name] = RefTariff(name)
    return _REF[name]


def _check_instant(name, tariff, dt, rec=None):
    want_p, want_dc, _ = ref(name).lookup(dt)
    try:
        got_p = tariff.get_tariff(dt)
        got_dc = tariff.get_demand_charge(dt)
    except ValueError as e:
        require(False, "lookup_raises", "%s: lookup at %s raised %r" % (name, dt, e))
    require(got_p == want_p, "price", lambda: "%s at %s: price %r, expected %r" % (name, dt, got_p, want_p))
    require(got_dc == want_dc, "demand_rate", lambda: "%s at %s: demand charge %r, expected %r" % (name, dt, got_dc, want_dc))


# ------------------------------------------------------------------ calendar grid


def calendar_years():
    found = {}
    for y in range(1990, 2060):
        k = (calendar.isleap(y), date(y, 1, 1).weekday())
        found.setdefault(k, y)
    ys = [found[k] for k in sorted(found)]
    assert len(ys) == 14
    return ys


def grid_items(tier):
    ys = calendar_years()
    # pair a leap with a non-leap year: the same tariff object sees the same (month, day) on
    # different weekdays
    pairs = [[ys[i], ys[i + 7]] for i in range(7)]
    return [{"tariff": t, "years": p, "every_minute": tier == "thorough"} for t in TARIFFS for p in pairs]


def _boundary_day(r, d):
    a = {s["id"] for s in r.matching(d - timedelta(days=1))}
    b = {s["id"] for s in r.matching(d)}
    c = {s["id"] for s in r.matching(d + timedelta(days=1))}
    return a != b or b != c


def prop_grid(spec, rec):
    name = spec["tariff"]
    r = ref(name)
    tariff = TimeOfUseTariff(name)
    bps = r.breakpoints_seconds()
    secs = {0, 86399}
    for b in bps:
        for d in (-60, -1, 0, 1, 60):
            if 0 <= b + d < 86400:
                secs.add(b + d)
    secs = sorted(secs)
    for y in spec["years"]:
        d = date(y, 1, 1)
        while d.year == y:
            base = datetime(d.year, d.month, d.day)
            if spec["every_minute"]:
                n = 0
                for m in range(1440):
                    _check_instant(name, tariff, base + timedelta(minutes=m))
                    n += 1
                for s in secs:
                    if s % 60:
                        _check_instant(name, tariff, base + timedelta(seconds=s))
                        n += 1
            else:
                for s in secs:
                    _check_instant(name, tariff, base + timedelta(seconds=s))
                n = len(secs)
            rec.count("lookups", n)
            bd = _boundary_day(r, d)
            rec.case({"tariff": name, "date": d.isoformat()}, ["season_or_weekclass_boundary"] if bd else [], nontrivial=bd)
            d += timedelta(days=1)


# ------------------------------------------------------------------ vectors


def _dt(s):
    return datetime.strptime(s, "%Y-%m-%dT%H:%M:%S")


def _aware(naive, tz):
    """naive wall clock -> the same wall clock carrying a time zone (None: unchanged)."""
    if not tz:
        return naive
    kind, _, zone = tz.partition(":")
    if kind == "pytz":
        import pytz

        return pytz.timezone(zone).localize(naive)
    if kind == "zoneinfo":
        import zoneinfo

        return naive.replace(tzinfo=zoneinfo.ZoneInfo(zone))
    from datetime import timezone

    return naive.replace(tzinfo=timezone.utc)


def _dst_sunday(year, spring):
    """US DST change of a year: second Sunday of March / first Sunday of November."""
    d = date(year, 3, 8) if spring else date(year, 11, 1)
    while d.weekday() != 6:
        d += timedelta(days=1)
    return d


def prop_vectors(spec, rec):
    name = spec["tariff"]
    tariff = TimeOfUseTariff(name)
    for w in spec["warmup"]:
        _check_instant(name, tariff, _dt(w))
    start, n, period = _dt(spec["start"]), spec["n"], spec["period"]
    # an aware start (the tutorial idiom is a pytz-localised simulation start): entry k is still
    # the lookup at start + k x period, i.e. at the wall clock the datetime arithmetic gives
    try:
        vec = tariff.get_tariffs(_aware(start, spec.get("tz")), n, period)
    except ValueError as e:
        require(False, "lookup_raises", "%s: get_tariffs(%s, %d, %r) raised %r" % (name, start, n, period, e))
    require(len(vec) == n, "vector_length", "get_tariffs returned %d entries for n=%d" % (len(vec), n))
    prices = set()
    crossed_midnight = False
    for k in range(n):
        dt = start + timedelta(seconds=k * period * 60)
        want, _, _ = ref(name).lookup(dt)
        require(vec[k] == want, "vector_entry", lambda: "%s: get_tariffs(%s, n=%d, period=%r)[%d] = %r, lookup at %s is %r" % (name, start, n, period, k, vec[k], dt, want))
        prices.add(want)
        if dt.date() != start.date():
            crossed_midnight = True
    # the same instant written in another zone is another wall clock: the SAME tariff object must
    # answer for that one (vector and single lookup)
    if spec.get("tz") and n:
        from datetime import timezone

        a0 = _aware(start, spec["tz"])
        for hours in (-4, 5.5):
            other = a0.astimezone(timezone(timedelta(hours=hours)))
            naive2 = other.replace(tzinfo=None)
            vec2 = tariff.get_tariffs(other, n, period)
            for k in range(n):
                dt2 = naive2 + timedelta(seconds=k * period * 60)
                w2, _, _ = ref(name).lookup(dt2)
                require(vec2[k] == w2, "vector_entry_same_instant_other_zone", lambda: "%s: get_tariffs(%s, n=%d, period=%r)[%d] = %r (asked after %s on the same object), lookup at wall clock %s is %r" % (name, other, n, period, k, vec2[k], a0, dt2, w2))
    # a fresh object answers the same as the used one
    fresh = TimeOfUseTariff(name)
    for k in (0, n // 2, n - 1):
        if n:
            dt = start + timedelta(seconds=k * period * 60)
            require(fresh.get_tariff(dt) == vec[k], "history_dependent", "used and fresh tariff objects disagree at %s" % dt)
    labels = set()
    if crossed_midnight:
        labels.add("crosses_midnight")
    if len(prices) > 1:
        labels.add("price_changes")
    if spec["warmup"]:
        labels.add("warmed_up")
    if spec.get("tz"):
        labels.add("aware_start")
        a0 = _aware(start, spec["tz"])
        a1 = _aware(start + timedelta(seconds=max(0, n - 1) * period * 60), spec["tz"])
        if a0.utcoffset() != a1.utcoffset():
            labels.add("aware_vector_across_dst")
    rec.count("lookups", n + len(spec["warmup"]))
    rec.case(spec, labels, nontrivial=bool(labels & {"crosses_midnight", "price_changes"}))


@st.composite
def instants(draw):
    y = draw(st.integers(2014, 2033))
    doy = draw(st.one_of(st.integers(0, 365), st.sampled_from([0, 58, 59, 60, 119, 120, 121, 150, 151, 152, 272, 273, 274, 303, 304, 305, 364, 365])))
    d = date(y, 1, 1) + timedelta(days=min(doy, 365 if calendar.isleap(y) else 364))
    near = st.tuples(st.sampled_from([8.0, 8.5, 12.0, 14.0, 16.0, 18.0, 21.0, 21.5, 23.0, 24.0]), st.integers(0, 2400)).map(lambda hb: max(0, min(86399, int(hb[0] * 3600) - hb[1])))
    sec = draw(st.one_of(st.integers(0, 86399), near, near, st.sampled_from([0, 86399, 8 * 3600, 12 * 3600 - 1, 8 * 3600 + 1800, 21 * 3600 + 1800, 23 * 3600])))
    if draw(st.integers(0, 5)) == 0:
        # late evening of the last day of a season: a simulation started here crosses into the
        # next season (different prices and, for some tariffs, a different demand rate)
        m, dd = draw(st.sampled_from([(4, 30), (10, 31), (5, 31), (9, 30), (12, 31)]))
        d = date(y, m, dd)
        sec = draw(st.integers(21 * 3600, 86399))
    return (datetime(d.year, d.month, d.day) + timedelta(seconds=sec)).strftime("%Y-%m-%dT%H:%M:%S")


@st.composite
def vector_cases(draw):
    start = draw(instants())
    warm = []
    if draw(st.booleans()):
        s = _dt(start)
        for dy in draw(st.lists(st.integers(-5, 5).filter(lambda x: x != 0), min_size=1, max_size=3)):
            try:
                warm.append(s.replace(year=s.year + dy).strftime("%Y-%m-%dT%H:%M:%S"))
            except ValueError:  # Feb 29
                pass
    n = draw(st.one_of(st.integers(0, 40), st.integers(0, 600)))
    period = draw(st.sampled_from([1, 5, 7.5, 15, 60]))
    tz = draw(st.sampled_from([None, None, "pytz:America/Los_Angeles", "zoneinfo:America/Los_Angeles", "utc:", "pytz:Europe/Berlin"]))
    if draw(st.integers(0, 2)) == 0 and n >= 2:
        # entry k falls exactly on a rate breakpoint although the start is off the hour (periods whose
        # length in hours is no binary fraction: 1, 5 and 7.5 minutes; 7 and 10 as well)
        period = draw(st.sampled_from([1, 5, 5, 7.5, 7, 10, 15]))
        k = draw(st.integers(1, n - 1))
        bp = draw(st.sampled_from([8.0, 8.5, 12.0, 14.0, 16.0, 18.0, 21.0, 21.5, 23.0]))
        s0 = _dt(start)
        start = (datetime(s0.year, s0.month, s0.day) + timedelta(hours=bp) - timedelta(seconds=k * period * 60)).strftime("%Y-%m-%dT%H:%M:%S")
    elif draw(st.integers(0, 3)) == 0:
        # from the evening before a US DST change to the Monday after it
        y = draw(st.integers(2014, 2033))
        d = _dst_sunday(y, draw(st.booleans()))
        start = (datetime(d.year, d.month, d.day) - timedelta(seconds=draw(st.integers(0, 6 * 3600)))).strftime("%Y-%m-%dT%H:%M:%S")
        period = draw(st.sampled_from([15, 60, 7.5]))
        n = int(draw(st.integers(30, 48)) * 60 / period)
        tz = draw(st.sampled_from(["pytz:America/Los_Angeles", "pytz:America/Los_Angeles", "zoneinfo:America/Los_Angeles", None]))
    return {
        "tariff": draw(st.sampled_from(TARIFFS)),
        "start": start,
        "n": n,
        "period": period,
        "warmup": warm,
        "tz": tz,
    }


# ------------------------------------------------------------------ interface / cost


class Probe(BaseAlgorithm):
    def __init__(self, spec):
        super().__init__()
        self.max_recompute = spec["max_recompute"]
        self.spec = spec
        self.obs = []

    def schedule(self, active_sessions):
        i = self.interface
        t = i.current_time
        n = self.spec["n"]
        o = {"t": t, "none": list(i.get_prices(n)), "zero": list(i.get_prices(n, start=0)), "dc_none": i.get_demand_charge(), "dc_zero": i.get_demand_charge(start=0)}
        k = self.spec["k"]
        o["k"] = list(i.get_prices(n, start=k))
        o["dc_k"] = i.get_demand_charge(k)
        o["rel"] = list(i.get_prices(n, start=t + 1))
        self.obs.append(o)
        # a scheduler may normalise / rescale the vectors it was handed: later answers must not
        # be affected by what it does to them
        for start in (None, 0, k, t + 1):
            v = i.get_prices(n, start=start)
            try:
                v *= 0.0
                v += 7.77
            except (TypeError, ValueError):
                pass
        return {s.station_id: [self.spec["pilot"]] for s in active_sessions}


def prop_interface(spec, rec):
    name = spec["tariff"]
    r = ref(name)
    start, period = _dt(spec["start"]), spec["period"]
    net = ChargingNetwork()
    volts = spec["voltages"]
    for k, v in enumerate(volts):
        net.register_evse(EVSE("st-%d" % k, max_rate=80), v, 0)
    evs = []
    for k, s in enumerate(spec["sessions"]):
        evs.append(EV(s["arrival"], s["departure"], s["energy"], "st-%d" % k, "sess-%d" % k, Battery(200, 0, 100)))
    algo = Probe(spec)
    tariff = TimeOfUseTariff(name)
    sim = Simulator(net, algo, EventQueue([PluginEvent(e.arrival, e) for e in evs]), _aware(start, spec.get("tz")), period=period, signals={"tariff": tariff}, verbose=False)
    sim.run()

    def at(i):
        return start + timedelta(seconds=i * period * 60)

    n = spec["n"]
    for o in algo.obs:
        t = o["t"]
        for key, base in (("none", t), ("zero", 0), ("k", spec["k"]), ("rel", t + 1)):
            want = [r.lookup(at(base + j))[0] for j in range(n)]
            require(o[key] == want, "interface_prices_" + key, lambda: "at period %d get_prices(%d, start=%s) = %r, expected %r" % (t, n, {"none": None, "zero": 0, "k": spec["k"], "rel": t + 1}[key], o[key], want))
        require(o["dc_none"] == r.lookup(at(t))[1], "interface_demand_charge_none", "get_demand_charge() at period %d" % t)
        require(o["dc_zero"] == r.lookup(at(0))[1], "interface_demand_charge_zero", "get_demand_charge(start=0) at period %d" % t)
        require(o["dc_k"] == r.lookup(at(spec["k"]))[1], "interface_demand_charge_k", "get_demand_charge(%d) at period %d" % (spec["k"], t))
    R = sim.charging_rates
    power = [sum(R[i, t] * volts[i] for i in range(len(volts))) / 1000 for t in range(R.shape[1])]
    prices = [r.lookup(at(t))[0] for t in range(R.shape[1])]
    want_cost = sum(p * w * period / 60 for p, w in zip(prices, power))
    got_cost = acnsim.energy_cost(sim)
    require(abs(got_cost - want_cost) <= 1e-9 * max(1, abs(want_cost)), "energy_cost", lambda: "energy_cost %r, sum(price*power*dt) %r" % (got_cost, want_cost))
    want_dc = r.lookup(start)[1] * max(power)
    got_dc = acnsim.demand_charge(sim)
    require(abs(got_dc - want_dc) <= 1e-9 * max(1, abs(want_dc)), "demand_charge", lambda: "demand_charge %r, rate(start)*peak power %r" % (got_dc, want_dc))
    # explicit tariff argument is the same thing
    require(abs(acnsim.energy_cost(sim, tariff=TimeOfUseTariff(name)) - want_cost) <= 1e-9 * max(1, abs(want_cost)), "energy_cost", "energy_cost with explicit tariff differs")
    # an explicitly given tariff takes the place of the simulation's own one
    other = spec.get("other_tariff")
    if other:
        ro = ref(other)
        prices_o = [ro.lookup(at(t))[0] for t in range(R.shape[1])]
        want_o = sum(p * w * period / 60 for p, w in zip(prices_o, power))
        got_o = acnsim.energy_cost(sim, tariff=TimeOfUseTariff(other))
        require(abs(got_o - want_o) <= 1e-9 * max(1, abs(want_o)), "energy_cost_explicit_tariff", lambda: "energy_cost(sim, tariff=%s) = %r on a simulation carrying %s; sum(price*power*dt) under %s is %r" % (other, got_o, name, other, want_o))
        want_dco = ro.lookup(start)[1] * max(power)
        got_dco = acnsim.demand_charge(sim, tariff=TimeOfUseTariff(other))
        require(abs(got_dco - want_dco) <= 1e-9 * max(1, abs(want_dco)), "demand_charge_explicit_tariff", lambda: "demand_charge(sim, tariff=%s) = %r, rate*peak under that tariff %r" % (other, got_dco, want_dco))
    labels = set()
    if other and other != name:
        labels.add("explicit_other_tariff")
    if spec.get("tz"):
        labels.add("aware_start")
    if len(set(prices)) > 1:
        labels.add("price_changes_during_sim")
    if any(o["t"] > 0 for o in algo.obs):
        labels.add("queried_after_period_0")
    if spec["period"] != int(spec["period"]):
        labels.add("fractional_period")
    if max(power) > 0:
        labels.add("energy_delivered")
    if r.lookup(at(R.shape[1] - 1))[1] != r.lookup(start)[1]:
        labels.add("demand_rate_changes_during_sim")
    if R.shape[1] * period > 31 * 24 * 60:
        labels.add("run_longer_than_a_month")
    rec.case(spec, labels, nontrivial="price_changes_during_sim" in labels and "queried_after_period_0" in labels)


@st.composite
def interface_cases(draw):
    nst = draw(st.integers(1, 3))
    sessions = []
    for _ in range(nst):
        a = draw(st.integers(0, 6))
        sessions.append({"arrival": a, "departure": a + draw(st.integers(1, 30)), "energy": draw(st.sampled_from([0.5, 4.0, 30.0]))})
    tariff = draw(st.sampled_from(TARIFFS))
    start = draw(instants())
    # the simulator's period is a float: half-minute, 2.5- and 7.5-minute periods as well
    period = draw(st.sampled_from([1, 5, 15, 60, 2.5, 7.5, 0.5]))
    if draw(st.integers(0, 7)) == 0:
        # the only bundled tariff whose demand rate differs between seasons: start on the last
        # evening of a season and run into the next one
        tariff = "pge_a10_tou_aug_2019"
        m, dd = draw(st.sampled_from([(4, 30), (10, 31)]))
        start = (datetime(draw(st.integers(2014, 2033)), m, dd) + timedelta(seconds=draw(st.integers(20 * 3600, 86399)))).strftime("%Y-%m-%dT%H:%M:%S")
        period = draw(st.sampled_from([15, 60]))
        sessions[0]["departure"] = sessions[0]["arrival"] + draw(st.integers(17, 30))
    mr = draw(st.sampled_from([None, 1, 3]))
    if draw(st.integers(0, 9)) == 0:
        # a run of more than a month (several calendar months, one demand charge all the same)
        period = draw(st.sampled_from([60, 120]))
        sessions[0]["departure"] = sessions[0]["arrival"] + draw(st.integers(800, 1500)) * (60 // period if period <= 60 else 1) // (period // 60)
        sessions[0]["energy"] = 2000.0
        mr = None
        if draw(st.booleans()):
            tariff = "pge_a10_tou_aug_2019"
    return {
        "tariff": tariff,
        "start": start,
        "period": period,
        "voltages": [draw(st.sampled_from([120.0, 208.0, 240.0])) for _ in range(nst)],
        "sessions": sessions,
        "max_recompute": mr,
        "n": draw(st.integers(1, 30)),
        "k": draw(st.integers(0, 40)),
        "pilot": draw(st.sampled_from([8.0, 16.0, 32.0])),
        "other_tariff": draw(st.sampled_from([None] + TARIFFS)),
        "tz": draw(st.sampled_from([None, None, "pytz:America/Los_Angeles", "zoneinfo:America/Los_Angeles", "utc:"])),
    }


def subchecks(tier):
    return [
        Exhaustive("calendar_grid", grid_items, prop_grid, exhaustive_in=("thorough",), jobs_quick=8),
        Given("vectors", vector_cases(), prop_vectors, quick=600, thorough=40000, floors={"crosses_midnight": 0.07, "price_changes": 0.08, "aware_vector_across_dst": 0.05}),
        Given("interface", interface_cases(), prop_interface, quick=150, thorough=8000, floors={"price_changes_during_sim": 0.08, "queried_after_period_0": 0.4, "explicit_other_tariff": 0.263, "run_longer_than_a_month": 0.03}),
    ]


def replay(subcheck, spec, rec):
    return {"calendar_grid": prop_grid, "vectors": prop_vectors, "interface": prop_interface}[subcheck](spec, rec)
