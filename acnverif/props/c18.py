"""C18 - analysis functions equal their first-principles definitions."""
import cmath
import math
import warnings
from datetime import datetime, timedelta, timezone

import numpy as np
from hypothesis import strategies as st

import acnportal.acnsim as acnsim

from .. import scenario as sc
from ..runner import Given, require

ID = "C18"
RULE = (
    "Hypothesis generates completed simulations (scenario generator: heterogeneous voltages, "
    "three-phase angles, mixed-sign constraints, 0-5 constraints, fractional periods, time-zone "
    "aware and naive starts, always-max / scripted / uncontrolled / sorted schedulers so that "
    "rates are non-zero) plus a requested constraint-id list (arbitrary sub-multiset in arbitrary "
    "order, possibly with an unknown name), three phase ids in arbitrary order, and a threshold. "
    "Oracle from first principles (charging_rates, spec voltages / phases / coefficients, session "
    "energies): aggregate_current = column sums; aggregate_power = sum_i V_i r_i / 1000; "
    "constraint_currents keys = the requested existing names and |value| = |sum_i a_i r_i e^{j "
    "phi_i}| for both values of return_magnitudes; total_energy_delivered / requested, "
    "proportion_of_energy_delivered, proportion_of_demands_met(threshold) from the sessions; NEMA "
    "unbalance (max - mean)/mean wherever mean > 1e-9; datetimes_array has one entry per simulated "
    "period, starting at start (tz dropped) and spaced by the period. Tolerance 1e-9 relative. "
    "Non-trivial = voltages not all equal and the requested ids are not in network order."
)
ASSUMPTIONS = [
    "constraint_currents is compared by magnitude for both values of return_magnitudes (the flag is inverted relative to its docstring and the repository's own test relies on the default; DESIGN.md section 5)",
    "sessions within 1e-9 kWh of the demands-met threshold are not judged",
]


def sweep(spec):
    """A parameter sweep that keeps only the numbers: the same scenario at other station voltages,
    each simulation built, run, analysed and thrown away before the next one is built."""
    import gc

    shifts = [0, 32, -88, 69, 12, 152, -40, 7]
    for k in range(int(spec["sweep"])):
        var = dict(spec, stations=[dict(s, voltage=float(s["voltage"]) + shifts[(k + j) % len(shifts)]) for j, s in enumerate(spec["stations"])], decoy=None, peek=False, handed_down=False)
        h = sc.build_sim(var)
        sc.run_sim(h)
        R = np.array(h.sim.charging_rates, dtype=float)
        V = [s["voltage"] for s in var["stations"]]
        want = [math.fsum(V[i] * R[i, t] for i in range(R.shape[0])) / 1000.0 for t in range(R.shape[1])]
        got = acnsim.aggregate_power(h.sim)
        require(np.allclose(got, want, rtol=1e-10, atol=1e-12), "aggregate_power", lambda: "run %d of a sweep over station voltages %r: aggregate_power %r, voltage-weighted sums %r" % (k, V, list(got), want))
        agg = acnsim.aggregate_current(h.sim)
        require(np.allclose(agg, R.sum(axis=0), rtol=1e-12, atol=1e-12), "aggregate_current", "sweep: aggregate_current differs from the column sums")
        tot = math.fsum(ev.energy_delivered for ev in h.evs.values())
        require(abs(acnsim.total_energy_delivered(h.sim) - tot) <= 1e-9 * (1 + tot), "total_energy_delivered", "sweep: total differs from the sum over sessions")
        del h, R, got, agg
        gc.collect()


def prop(spec, rec):
    m = sc.Model(spec)
    h = sc.build_sim(spec)
    guest = None
    if spec.get("guest"):
        # a car that is no session of this simulation: the site operator's own vehicle, plugged into
        # the last station (which no session uses) by hand before the run and left there
        from acnportal.acnsim import EV, Battery

        guest = EV(0, 10 ** 6, 40.0, spec["stations"][-1]["id"], "guest-car", Battery(60.0, 5.0, 7.0))
        h.net.plugin(guest)
    if spec.get("tz"):
        h.sim.start = h.sim.start.replace(tzinfo=timezone(timedelta(hours=spec["tz"])))
    sc.run_sim(h)
    sim = h.sim
    labels_extra = set()
    if spec.get("analyse", "direct") != "direct":
        # "all completed simulations": also one that was saved after its run and loaded again
        # (the documented way of keeping results), or deep-copied
        import copy

        with warnings.catch_warnings():
            warnings.simplefilter("ignore")
            if spec["analyse"] == "deepcopy":
                sim = copy.deepcopy(sim)
            else:
                sim, _ = sc.json_roundtrip(sim, type(sim), spec["analyse"][5:])
        h.evs = dict(sim.ev_history)
        labels_extra.add("analysed_after_" + ("deepcopy" if spec["analyse"] == "deepcopy" else "json_reload"))
    R = np.array(sim.charging_rates, dtype=float)
    n, T = R.shape
    ids = m.station_ids
    V = [s["voltage"] for s in spec["stations"]]
    PH = [s["phase"] for s in spec["stations"]]
    labels = sc.scenario_labels(spec) | labels_extra

    agg = acnsim.aggregate_current(sim)
    want = [math.fsum(R[i, t] for i in range(n)) for t in range(T)]
    require(np.allclose(agg, want, rtol=1e-12, atol=1e-12), "aggregate_current", lambda: "aggregate_current %r, column sums %r" % (list(agg), want))
    power = acnsim.aggregate_power(sim)
    wantp = [math.fsum(V[i] * R[i, t] for i in range(n)) / 1000.0 for t in range(T)]
    require(np.allclose(power, wantp, rtol=1e-10, atol=1e-12), "aggregate_power", lambda: "aggregate_power %r, voltage-weighted sums %r" % (list(power), wantp))

    names = [c["name"] for c in spec["constraints"]]
    model_cur = {}
    for c in spec["constraints"]:
        model_cur[c["name"]] = [abs(sum(c["coeffs"].get(ids[i], 0.0) * R[i, t] * cmath.exp(1j * math.radians(PH[i])) for i in range(n))) for t in range(T)]
    def check_cc(names, when=""):
        for flag in (False, True):
            for req in (None, spec["requested"], []):
                with warnings.catch_warnings():
                    warnings.simplefilter("ignore")
                    got = acnsim.constraint_currents(sim, return_magnitudes=flag, constraint_ids=None if req is None else list(req))
                expect_keys = names if req is None else [nm for nm in names if nm in req]
                require(sorted(got) == sorted(expect_keys), "constraint_currents_keys", lambda: "%srequested %r -> keys %r, expected %r" % (when, req, sorted(got), sorted(expect_keys)))
                for nm in expect_keys:
                    val = np.abs(np.asarray(got[nm]))
                    require(val.shape == (T,) and np.allclose(val, model_cur[nm], rtol=1e-9, atol=1e-9), "constraint_currents_values", lambda: "%sconstraint %s (requested %r, return_magnitudes=%r): |value| %r, phasor sums %r" % (when, nm, req, flag, list(val), model_cur[nm]))

    if names:
        check_cc(names)
        if spec["requested"] and [nm for nm in spec["requested"] if nm in names] != [nm for nm in names if nm in spec["requested"]]:
            labels.add("requested_not_in_network_order")
        if spec.get("retune"):
            # a what-if study on the finished simulation: one limit of its network is changed (or a
            # constraint dropped) through the documented API and the recorded trajectory is
            # analysed again - the currents through the remaining constraints are what they were
            from acnportal.acnsim import Current

            rt = spec["retune"]
            c = spec["constraints"][rt["index"] % len(spec["constraints"])]
            with warnings.catch_warnings():
                warnings.simplefilter("ignore")
                if rt["how"] == "remove":
                    sim.network.remove_constraint(c["name"])
                    left = [nm for nm in names if nm != c["name"]]
                else:
                    sim.network.update_constraint(c["name"], Current(dict(c["coeffs"])), c["limit"] * rt["factor"])
                    left = list(names)
            if left:
                check_cc(left, "after the network's constraint %r was %s: " % (c["name"], "removed" if rt["how"] == "remove" else "given another limit"))
            labels.add("analysed_again_after_a_constraint_edit")
            if rt["how"] == "remove":
                names = left
    if len(spec["phase_ids"]) == 3 and all(p in names for p in spec["phase_ids"]):
        ph_ids = spec["phase_ids"]
        with warnings.catch_warnings(), np.errstate(all="ignore"):
            warnings.simplefilter("ignore")
            unb = np.asarray(acnsim.current_unbalance(sim, ph_ids), dtype=float)
        require(unb.shape == (T,), "unbalance_shape", lambda: "unbalance shape %r" % (unb.shape,))
        for t in range(T):
            vals = [model_cur[p][t] for p in ph_ids]
            mean = sum(vals) / 3.0
            if mean > 1e-9:
                w = (max(vals) - mean) / mean
                require(abs(unb[t] - w) <= 1e-9 * (1 + abs(w)), "nema_unbalance", lambda: "period %d phases %r: unbalance %r, NEMA (max-mean)/mean = %r" % (t, ph_ids, unb[t], w))
                labels.add("unbalance_checked")

    req_tot = math.fsum(s["energy"] for s in spec["sessions"])
    del_tot = math.fsum(h.evs[s["id"]].energy_delivered for s in spec["sessions"])
    require(abs(acnsim.total_energy_requested(sim) - req_tot) <= 1e-9 * (1 + req_tot), "total_energy_requested", lambda: "%r vs %r" % (acnsim.total_energy_requested(sim), req_tot))
    require(abs(acnsim.total_energy_delivered(sim) - del_tot) <= 1e-9 * (1 + del_tot), "total_energy_delivered", lambda: "%r vs %r" % (acnsim.total_energy_delivered(sim), del_tot))
    integral = math.fsum(wantp) * spec["period"] / 60.0
    if guest is None:
        require(abs(acnsim.total_energy_delivered(sim) - integral) <= 1e-9 * (1 + integral), "total_energy_equals_power_integral", lambda: "delivered %r kWh, integral of aggregate power %r" % (acnsim.total_energy_delivered(sim), integral))
    else:
        # the totals speak about the simulation's sessions; what the guest drew shows in the power only
        labels.add("car_on_site_that_is_no_session")
        if integral > del_tot + 1e-6:
            labels.add("guest_car_drew_energy")
    if req_tot > 0:
        require(abs(acnsim.proportion_of_energy_delivered(sim) - del_tot / req_tot) <= 1e-9, "proportion_of_energy_delivered", lambda: "%r vs %r" % (acnsim.proportion_of_energy_delivered(sim), del_tot / req_tot))
    thr = spec["threshold"]
    rem = [s["energy"] - h.evs[s["id"]].energy_delivered for s in spec["sessions"]]
    if all(abs(r - thr) > 1e-9 for r in rem):
        wantm = sum(1 for r in rem if r < thr) / len(rem)
        gotm = acnsim.proportion_of_demands_met(sim, threshold=thr)
        require(abs(gotm - wantm) <= 1e-12, "proportion_of_demands_met", lambda: "threshold %r: %r, expected %r (remaining demands %r)" % (thr, gotm, wantm, rem))
        if 0 < wantm < 1:
            labels.add("demands_partly_met")
    dflt = acnsim.proportion_of_demands_met(sim)
    if all(abs(r - 0.1) > 1e-9 for r in rem):
        require(abs(dflt - sum(1 for r in rem if r < 0.1) / len(rem)) <= 1e-12, "proportion_of_demands_met_default_threshold", lambda: "default threshold: %r" % dflt)

    with warnings.catch_warnings():
        warnings.simplefilter("ignore")
        dts = acnsim.datetimes_array(sim)
    require(len(dts) == sim.iteration == m.end, "datetimes_length", lambda: "%d datetimes for %d periods" % (len(dts), sim.iteration))
    base = sc.parse_start(spec)
    from fractions import Fraction

    per_us = Fraction(str(spec["period"])) * 60 * 10 ** 6  # the period in microseconds, exactly
    for k in range(len(dts)):
        # entry k = start + k x period, to the millisecond (float rounding of the product is not judged)
        got_us = int((dts[k] - np.datetime64(base)) / np.timedelta64(1, "us"))
        require(abs(got_us - k * per_us) <= 1000, "datetimes_spacing", lambda: "entry %d is %r = start + %d us, expected start + %d x %r min = %s us" % (k, dts[k], got_us, k, spec["period"], k * per_us))

    if spec.get("tz"):
        # a second completed simulation that started at the same instant, written in another zone
        # (same period, same number of periods): its own wall clock counts
        import copy

        other = 5.5 if spec["tz"] != 5.5 else -8
        sim2 = copy.copy(sim)
        sim2.start = sim.start.astimezone(timezone(timedelta(hours=other)))
        with warnings.catch_warnings():
            warnings.simplefilter("ignore")
            dts2 = acnsim.datetimes_array(sim2)
        base2 = sim2.start.replace(tzinfo=None)
        require(len(dts2) == len(dts), "datetimes_length", "second simulation: length differs")
        for k in range(len(dts2)):
            got_us = int((dts2[k] - np.datetime64(base2)) / np.timedelta64(1, "us"))
            require(abs(got_us - k * per_us) <= 1000, "datetimes_same_instant_other_zone", lambda: "a simulation started at %s (the same instant as %s): entry %d is %r" % (sim2.start, sim.start, k, dts2[k]))
        labels.add("same_instant_other_zone")
    if R.any():
        labels.add("nonzero_rates")
    if spec.get("tz"):
        labels.add("tz_aware_start")
    if len(set(PH)) == 1 and n > 1:
        labels.add("single_phase_site")
        if any(len({v > 0 for v in c["coeffs"].values() if v != 0}) == 2 for c in spec["constraints"]):
            labels.add("single_phase_mixed_sign_constraint")
    if spec.get("sweep"):
        del sim, h
        sweep(spec)
        labels.add("sweep_of_discarded_simulations")
    nt = "mixed_voltage" in labels and "requested_not_in_network_order" in labels
    rec.case(spec, labels, nt)


@st.composite
def cases(draw):
    spec = draw(sc.scenarios(scheduler=draw(st.sampled_from(["always_max", "scripted", "uncontrolled", "sorted"])), max_constraints=5, limits=(20.0, 50.0, 100.0, 1000.0)))
    names = [c["name"] for c in spec["constraints"]]
    if names:
        req = draw(st.lists(st.sampled_from(names + ["no-such-constraint"]), min_size=1, max_size=len(names) + 2))
        spec["requested"] = [x for x in req]
        spec["phase_ids"] = list(draw(st.permutations(names)))[:3] if len(names) >= 3 else []
    else:
        spec["requested"], spec["phase_ids"] = [], []
    spec["threshold"] = draw(st.sampled_from([0.1, 0.001, 1.0, 5.0, 0.0, 0.0, -0.05, 1e-4, 3e-4]))
    if draw(st.integers(0, 2)) == 0:
        # a car that ends its stay a fraction of a watt-hour short of its request: the battery is
        # full 2e-4 / 5e-4 kWh before the request is met (below the simulator's own 1e-3 kWh
        # "fully charged" tolerance), and thresholds of that size are asked about
        x = draw(st.sampled_from(spec["sessions"]))
        x["battery"] = {"model": "ideal", "cap": 1.0, "init": 0.5, "maxp": 50.0}
        x["energy"] = 0.5 + draw(st.sampled_from([2e-4, 5e-4]))
        spec["threshold"] = draw(st.sampled_from([1e-4, 3e-4, 0.0, 1e-3]))
    spec["tz"] = draw(st.sampled_from([None, None, -8, 5.5]))
    spec["analyse"] = draw(st.sampled_from(["direct", "direct", "json_string", "json_path", "json_buffer", "deepcopy"]))
    # (not on the slow-motion scenarios: ten runs of a couple of thousand periods each)
    small = spec.get("stretch", 1) == 1 and len(spec["sessions"]) <= 8 and len(spec["stations"]) <= 6
    spec["sweep"] = draw(st.sampled_from([0] * 5 + [6, 10])) if small else 0
    used = {x["station"] for x in spec["sessions"]}
    if spec["stations"][-1]["id"] not in used and not spec.get("early_unplugs") and draw(st.booleans()):
        spec["guest"] = True
        spec["analyse"] = "direct"
    if names and draw(st.integers(0, 2)) == 0:
        spec["retune"] = {"index": draw(st.integers(0, 4)), "how": draw(st.sampled_from(["limit", "limit", "remove"])), "factor": draw(st.sampled_from([0.5, 2.0, 1.0]))}
    if draw(st.integers(0, 3)) == 0:
        # a single-phase site: every station on the same angle (mixed-sign coefficients stay)
        ph = draw(st.sampled_from([0.0, 30.0, -90.0, 180.0]))
        for stn in spec["stations"]:
            stn["phase"] = ph
    return spec


def subchecks(tier):
    return [
        Given(
            "analysis",
            cases(),
            prop,
            quick=300,
            thorough=20000,
            floors={"requested_not_in_network_order": 0.1, "mixed_voltage": 0.3, "nonzero_rates": 0.4, "unbalance_checked": 0.05, "fractional_period": 0.04, "single_phase_mixed_sign_constraint": 0.015, "same_instant_other_zone": 0.2, "analysed_after_json_reload": 0.2},
        )
    ]


def replay(subcheck, spec, rec):
    return prop(spec, rec)
