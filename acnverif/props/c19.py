"""C19 - stochastic space assignment never loses, duplicates or starves a session."""
import random
import warnings
from datetime import datetime

import numpy as np
from hypothesis import strategies as st

from acnportal.acnsim import EV, EVSE, Battery, Current, EventQueue, PluginEvent, Simulator, UnplugEvent
from acnportal.algorithms import SortedSchedulingAlgo, UncontrolledCharging, first_come_first_served
from acnportal.contrib.acnsim import StochasticNetwork

from .. import scenario as sc
from ..runner import Given, require

ID = "C19"
RULE = (
    "Hypothesis generates StochasticNetwork histories: 1-4 stations, 2-14 sessions whose stays "
    "overlap heavily (more simultaneous sessions than stations in most cases), small and large "
    "energy requests so that satisfied EVs occur, early_departure on/off, uncontrolled, greedy "
    "(demand-trimming) or always-max scripted scheduler, and ALL station choices (random.choice is patched to index "
    "with generated integers, so the choice sequence is part of the shrinkable input). A subclass "
    "snapshots occupancy and waiting queue where each period's pilots are applied (update_pilots, "
    "after the period's events) and in post_charging_update (after early departures). Oracle: a "
    "reference model advanced with the same event order as sim.event_history (ties between "
    "equal-precedence events are unspecified) and the same chosen stations, which must be free in "
    "the model; satisfied = remaining demand <= 1e-3 kWh by the recorded rate ledger. Per period: "
    "every arrived, not yet departed EV is in exactly one place (one station or the queue), queue "
    "non-empty => no free station, admissions from the queue are first-come-first-served, both "
    "snapshots equal the model; at the end all stations vacant, queue empty, every session gone, "
    "never_charged / swaps / early_unplug equal the model's counts, and recorded current only flows "
    "to a station while the model has an EV there. Sub-check 'reproducible': the real "
    "random.seed(k) twice gives identical assignments and matrices. Non-trivial = some EV waited "
    "and was admitted later, or departed while waiting."
)
ASSUMPTIONS = [
    "sessions whose remaining demand comes within 1e-6 kWh of the 1e-3 kWh satisfaction threshold are not judged (counted)",
    "the order of simultaneous equal-precedence events is taken from sim.event_history",
]

START = datetime(2020, 3, 1, 8)
V = 208.0


class TraceStochastic(StochasticNetwork):
    def __init__(self, *a, **k):
        super().__init__(*a, **k)
        self.before = {}  # period -> (occupancy, queue) when the period's pilots are applied
        self.after = {}  # period -> (occupancy, queue) after post_charging_update
        self.t = -1

    def _snap(self):
        return ({sid: (self.get_ev(sid).session_id if self.get_ev(sid) is not None else None) for sid in self.station_ids}, list(self.waiting_queue.keys()))

    def update_pilots(self, pilots, i, period):
        self.t = i
        self.before[i] = self._snap()
        super().update_pilots(pilots, i, period)

    def post_charging_update(self):
        super().post_charging_update()
        self.after[self.t] = self._snap()


class Picker:
    def __init__(self, ints):
        self.ints = list(ints) or [0]
        self.picks = []

    def __call__(self, seq):
        k = self.ints[len(self.picks) % len(self.ints)] % len(seq)
        self.picks.append(seq[k])
        return seq[k]


def build(spec, picker=None, net=None):
    ids = spec["stations"]
    if net is None:
        if spec.get("positional_args"):
            # the released signature, used positionally: (violation_tolerance, relative_tolerance, early_departure)
            net = TraceStochastic(1e-5, 1e-7, spec["early"])
        else:
            net = TraceStochastic(early_departure=spec["early"])
        for k, sid in enumerate(ids):
            if spec.get("look_after") is not None and k == spec["look_after"] % len(ids):
                # the car park is built in stages: free spaces are looked up before the last
                # row of stations is registered
                net.available_evses()
            net.register_evse(EVSE(sid, max_rate=32.0), V, 0)
        if spec["constrained"]:
            net.add_constraint(Current(list(ids)), 32.0 * len(ids), name="aggregate")
    evs = {}
    for s in spec["sessions"]:
        # the space a session declares (as ACN-Data sessions do) is only a hint: assignment is random
        evs[s["id"]] = EV(s["arrival"], s["departure"], s["energy"], s.get("declared"), s["id"], Battery(1000.0, 0.0, 50.0))
    # cars that are already on site when the simulated day starts: the caller has put them into the
    # car park himself (network.plugin, the same call the simulator makes) and only their
    # departures are events of this simulation
    pre = [s for s in spec["sessions"] if s.get("pre")]
    if pre:
        orig = random.choice
        if picker is not None:
            random.choice = picker
        try:
            for s in pre:
                net.plugin(evs[s["id"]])
        finally:
            random.choice = orig
    events = [UnplugEvent(evs[s["id"]].departure, evs[s["id"]]) if s.get("pre") else PluginEvent(evs[s["id"]].arrival, evs[s["id"]]) for s in spec["sessions"]]
    order = [i for i in spec.get("event_order", []) if i < len(events)]
    order += [i for i in range(len(events)) if i not in order]
    q = EventQueue([events[i] for i in order])
    if spec["scheduler"] == "uncontrolled":
        algo = UncontrolledCharging()
    elif spec["scheduler"] == "greedy":
        # trims the last pilot to the remaining demand, so sessions end within float noise of
        # their request instead of overshooting it
        algo = SortedSchedulingAlgo(first_come_first_served)
    else:
        algo = sc.Scripted([{"rows": {sid: [32.0] for sid in ids}, "order": sorted(ids), "vtype": "float"}], max_recompute=1)
    sim = Simulator(net, algo, q, START, period=spec["period"], verbose=False)
    return net, sim, evs


def run(sim, picker):
    orig = random.choice
    if picker is not None:
        random.choice = picker
    try:
        with warnings.catch_warnings():
            warnings.simplefilter("ignore")
            sim.run()
    finally:
        random.choice = orig


def prop(spec, rec):
    picker = Picker(spec["choices"])
    net, sim, evs = build(spec, picker)
    run(sim, picker)
    labels = judge(spec, net, sim, evs, picker, rec, (0, 0, 0))
    if labels is None:
        return
    if spec.get("second_run"):
        # the same site (network object) serves the same day again: fresh EV objects with the
        # same session ids, fresh queue, scheduler and simulator
        base = (net.never_charged, net.swaps, net.early_unplug)
        net.before, net.after, net.t = {}, {}, -1
        picker2 = Picker(spec["choices"][::-1])
        _, sim2, evs2 = build(spec, picker2, net=net)
        run(sim2, picker2)
        l2 = judge(spec, net, sim2, evs2, picker2, rec, base)
        if l2 is None:
            return
        labels = labels | l2 | {"network_object_used_for_a_second_run"}
    if spec.get("positional_args"):
        labels.add("constructed_with_positional_arguments")
    rec.case(spec, labels, "waited_then_admitted" in labels or "departed_while_waiting" in labels)


def judge(spec, net, sim, evs, picker, rec, base):
    ids = spec["stations"]
    sess = {s["id"]: s for s in spec["sessions"]}
    last = max(s["departure"] for s in spec["sessions"])
    require(sim.iteration == last + 1 and sim.event_queue.empty(), "run_completes", lambda: "iteration %r, last event %r" % (sim.iteration, last))
    R = np.array(sim.charging_rates, dtype=float)
    period = spec["period"]

    by_t = {}
    for e in sim.event_history:
        by_t.setdefault(e.timestamp, []).append(e)
    occ = {sid: None for sid in ids}
    since = {}  # session -> (station, period of admission)
    wq, gone = [], set()
    never = swaps = early = 0
    pi = 0
    waited_admitted = departed_waiting = False
    labels = {"early_on" if spec["early"] else "early_off", "sched_" + spec["scheduler"]}

    def delivered(sid, upto):
        stn, p = since[sid]
        i = ids.index(stn)
        return sum(R[i, tau] for tau in range(p, upto + 1)) * V / 1000.0 * period / 60.0

    for s in spec["sessions"]:
        # cars put into the car park by the caller before the run, in that order
        if s.get("pre"):
            free = [x for x in ids if occ[x] is None]
            if free:
                require(pi < len(picker.picks), "plugin_without_station_choice", lambda: "%s was put into the car park before the run with free stations %r but no station was chosen" % (s["id"], free))
                ch = picker.picks[pi]
                pi += 1
                require(ch in free, "chosen_station_not_free", lambda: "before the run: station %s chosen for %s but the model has it occupied by %r" % (ch, s["id"], occ.get(ch)))
                occ[ch] = s["id"]
                since[s["id"]] = (ch, 0)
            else:
                wq.append(s["id"])
            labels.add("cars_on_site_before_the_run")
    for t in range(sim.iteration):
        for e in by_t.get(t, []):
            sid = e.ev.session_id
            if e.event_type == "Plugin":
                free = [s for s in ids if occ[s] is None]
                if free:
                    require(not wq, "ev_waits_while_station_free", lambda: "period %d: %r wait although stations %r are free" % (t, wq, free))
                    require(pi < len(picker.picks), "plugin_without_station_choice", lambda: "period %d: %s plugged in with free stations %r but no station was chosen" % (t, sid, free))
                    ch = picker.picks[pi]
                    pi += 1
                    require(ch in free, "chosen_station_not_free", lambda: "period %d: station %s chosen for %s but the model has it occupied by %r" % (t, ch, sid, occ.get(ch)))
                    occ[ch] = sid
                    since[sid] = (ch, t)
                else:
                    wq.append(sid)
            elif e.event_type == "Unplug":
                if sid in wq:
                    wq.remove(sid)
                    never += 1
                    gone.add(sid)
                    departed_waiting = True
                elif sid in occ.values():
                    stn = [k for k, v in occ.items() if v == sid][0]
                    occ[stn] = None
                    gone.add(sid)
                    if wq:
                        nx = wq.pop(0)
                        occ[stn] = nx
                        since[nx] = (stn, t)
                        swaps += 1
                        waited_admitted = True
                else:
                    require(sid in gone, "unplug_of_unknown_session", lambda: "period %d: unplug of %s which is neither connected nor waiting nor gone" % (t, sid))
        # snapshot where the period's pilots are applied
        require(t in net.before, "no_charging_update_in_period", lambda: "period %d: pilots were never applied" % t)
        b_occ, b_wq = net.before[t]
        require(b_occ == occ and b_wq == wq, "state_after_events", lambda: "period %d after events: stations %r queue %r, model %r %r" % (t, b_occ, b_wq, occ, wq))
        placed = [v for v in occ.values() if v is not None]
        require(len(set(placed)) == len(placed) and not set(placed) & set(wq), "ev_in_two_places", lambda: "period %d: %r / %r" % (t, occ, wq))
        for s in spec["sessions"]:
            if s["arrival"] <= t < s["departure"] and s["id"] not in gone:
                require((s["id"] in placed) != (s["id"] in wq), "arrived_ev_in_exactly_one_place", lambda: "period %d: session %s is in %d places (stations %r, queue %r)" % (t, s["id"], (s["id"] in placed) + (s["id"] in wq), occ, wq))
        if wq:
            require(all(v is not None for v in occ.values()), "ev_waits_while_station_free", lambda: "period %d: queue %r although %r" % (t, wq, occ))
        # early departure of satisfied EVs, in station order, while someone waits
        if spec["early"]:
            for stn in ids:
                sid = occ[stn]
                if sid is None or not wq:
                    continue
                rem = sess[sid]["energy"] - delivered(sid, t)
                if abs(rem - 1e-3) <= 1e-6:
                    rec.count("ambiguous_threshold")
                    rec.case(spec, labels | {"ambiguous"}, False)
                    return None
                if not rem > 1e-3:
                    occ[stn] = None
                    gone.add(sid)
                    early += 1
                    nx = wq.pop(0)
                    occ[stn] = nx
                    since[nx] = (stn, t + 1)
                    swaps += 1
                    waited_admitted = True
                    labels.add("early_departure_happened")
        if t in net.after:
            a_occ, a_wq = net.after[t]
            require(a_occ == occ and a_wq == wq, "state_after_charging_update", lambda: "period %d after the charging update: stations %r queue %r, model %r %r" % (t, a_occ, a_wq, occ, wq))
        # recorded current only flows where the model has an EV (connected during this period)
        for i, stn in enumerate(ids):
            if R[i, t] != 0:
                holder = net.before[t][0][stn]
                require(holder is not None, "current_to_vacant_station", lambda: "period %d: station %s has rate %r but no EV" % (t, stn, R[i, t]))
    require(all(v is None for v in occ.values()) and not wq, "model_not_empty_at_end", lambda: "model ends with %r / %r" % (occ, wq))
    for stn in ids:
        require(net.get_ev(stn) is None, "station_not_vacated", lambda: "station %s still holds %s" % (stn, net.get_ev(stn).session_id))
    require(len(net.waiting_queue) == 0, "queue_not_empty_at_end", lambda: "waiting queue %r" % list(net.waiting_queue))
    require(gone == set(sess), "session_not_gone", lambda: "sessions never departed: %r" % sorted(set(sess) - gone))
    want_counters = (base[0] + never, base[1] + swaps, base[2] + early)
    require((net.never_charged, net.swaps, net.early_unplug) == want_counters, "counters", lambda: "(never_charged, swaps, early_unplug) = %r, model %r" % ((net.never_charged, net.swaps, net.early_unplug), want_counters))
    require(pi == len(picker.picks), "extra_station_choices", lambda: "%d station choices made, %d plug-ins with a free station" % (len(picker.picks), pi))
    # energy only for sessions that were connected, and never more than charged there
    for sid, ev in evs.items():
        if sid not in since:
            require(ev.energy_delivered == 0, "energy_without_connection", lambda: "session %s never connected but received %r kWh" % (sid, ev.energy_delivered))
    if waited_admitted:
        labels.add("waited_then_admitted")
    if departed_waiting:
        labels.add("departed_while_waiting")
    if len(spec["sessions"]) > len(ids):
        labels.add("more_sessions_than_stations")
    if any(s.get("declared") in ids for s in spec["sessions"]):
        labels.add("declared_registered_station")
    if "" in ids:
        labels.add("station_id_is_the_empty_string")
    if spec.get("look_after") is not None:
        labels.add("free_spaces_looked_up_before_all_stations_were_registered")
    return labels


def prop_reproducible(spec, rec):
    outs = []
    for _ in range(2):
        random.seed(spec["seed"])
        net, sim, evs = build(spec)
        run(sim, None)
        outs.append((np.array(sim.charging_rates), np.array(sim.pilot_signals), {k: (ev.station_id, ev.energy_delivered) for k, ev in evs.items()}, (net.never_charged, net.swaps, net.early_unplug), dict(net.before)))
    a, b = outs
    require(np.array_equal(a[0], b[0]) and np.array_equal(a[1], b[1]), "not_reproducible_matrices", "two runs under the same random seed give different matrices")
    require(a[2] == b[2] and a[3] == b[3] and a[4] == b[4], "not_reproducible_assignment", lambda: "two runs under the same random seed differ: %r vs %r" % (a[2], b[2]))
    rec.case(spec, {"reproducible"}, len(spec["stations"]) > 1)


# station ids are free text: the empty string, digits only, case twins
ODD_STATIONS = ["", "0", "10", "9", "A", "a"]


@st.composite
def own_cases(draw):
    """cases() plus, in a quarter of the histories, cars that are on site before the run starts
    (put into the car park by the caller; only their departures are events).  Kept out of the
    ledger checks that share cases(): such cars are not sessions of the simulator's ev_history."""
    spec = draw(cases())
    if draw(st.integers(0, 3)) == 0:
        k = draw(st.integers(1, min(5, len(spec["sessions"]))))
        for s in spec["sessions"][:k]:
            s["pre"] = True
            s["departure"] = s["departure"] - s["arrival"]
            s["arrival"] = 0
    return spec


@st.composite
def cases(draw):
    n = draw(st.integers(1, 4))
    ids = list(draw(st.permutations(ODD_STATIONS if draw(st.integers(0, 3)) == 0 else sc.STATION_POOL)))[:n]
    k = draw(st.integers(2, 14))
    sessions = []
    for i in range(k):
        a = draw(st.integers(0, 6))
        sessions.append({"id": "sess-%d" % i, "arrival": a, "departure": a + draw(st.integers(1, 6)), "energy": draw(st.sampled_from([0.05, 0.3, 1.0, 30.0, 30.0])), "declared": draw(st.sampled_from([None, None, "elsewhere"] + ids))})
    return {
        "stations": ids,
        "sessions": sessions,
        "early": draw(st.booleans()),
        "constrained": draw(st.booleans()),
        "scheduler": draw(st.sampled_from(["uncontrolled", "always_max", "greedy"])),
        "period": draw(st.sampled_from([1, 5, 15, 7])),
        "choices": draw(st.lists(st.integers(0, 11), min_size=1, max_size=12)),
        "event_order": list(draw(st.permutations(range(k)))),
        "seed": draw(st.integers(0, 10 ** 6)),
        "second_run": draw(st.integers(0, 2)) == 0,
        "positional_args": draw(st.booleans()),
        "look_after": draw(st.sampled_from([None, None, 0, 1, 2, 3])),
    }


def subchecks(tier):
    return [
        Given("space_assignment", own_cases(), prop, quick=500, thorough=40000, floors={"waited_then_admitted": 0.3, "departed_while_waiting": 0.15, "early_departure_happened": 0.08, "more_sessions_than_stations": 0.37, "network_object_used_for_a_second_run": 0.1, "constructed_with_positional_arguments": 0.2, "cars_on_site_before_the_run": 0.08, "station_id_is_the_empty_string": 0.04}),
        Given("reproducible", own_cases(), prop_reproducible, quick=60, thorough=3000, jobs_quick=2),
    ]


def replay(subcheck, spec, rec):
    return (prop_reproducible if subcheck == "reproducible" else prop)(spec, rec)
