"""C20 - the ACN-Data client yields every session once and converts times faithfully."""
import copy
import email.utils
import zoneinfo
from datetime import datetime, timedelta, timezone
from unittest import mock
from urllib.parse import unquote_plus

import pytz
from hypothesis import strategies as st

from acnportal.acndata import DataClient, data_client
from acnportal.acndata.utils import http_date, parse_http_date

from ..runner import Given, require

ID = "C20"
RULE = (
    "Hypothesis generates a fake server: 1-6 pages with 0-4 documents each (empty first / middle / "
    "last pages), 'next' links on all but the last page; documents with RFC-1123 strings in all "
    "time fields, None fields, non-date strings, numbers, nested time series with 'timestamps', in "
    "five time zones, with instants drawn near DST transitions; and a query (site x where x "
    "project x sort x timeseries, or get_sessions_by_time(start, end, min_energy, count)). "
    "requests.get / requests.head of the client module are replaced by a transport that serves "
    "deep copies of the pages and records every request. Oracle: yielded ids = concatenation of "
    "the served pages, each once, in order; number of requests = number of pages; the first "
    "request, parsed into path and parameters (query string or params=, URL-decoded), addresses "
    "base + sessions/<site> (+/ts/) with where / project / sort as given and max_results 100 (1 "
    "for time series); later requests address base + next.href; the token is the credential; an "
    "invalid site raises ValueError with zero requests. Every RFC-1123 field and time-series "
    "entry becomes an aware datetime with the same epoch second whose UTC offset is the zone's "
    "offset at that instant according to the standard library's zoneinfo (independent of pytz); "
    "all other fields are untouched. The time-window wrapper sends RFC-1123 renderings (checked "
    "against email.utils.formatdate) of start/end, the energy filter and sort=connectionTime; "
    "count=True issues one HEAD request and returns the x-total-count header. Round trip: "
    "parse_http_date(http_date(dt), tz) == dt truncated to the second, in the zone's offset. "
    "Time series may span months (interior samples in another UTC offset than both ends) or be out of time order; energy thresholds are arbitrary floats and must arrive numerically unchanged. "
    "Sub-check interleaved_generators: two generators of ONE client alive at the same time (nested, or read in generated turns) against a transport that serves pages by what is asked for; each still yields its own result set once, in order. "
    "Non-trivial = an empty page before a non-empty one, or an instant within a day of a DST change."
)
ASSUMPTIONS = [
    "filter strings contain no '&' (the client does not URL-encode; parameters are parsed by splitting on '&' and the first '=')",
    "zone rules come from the tz database shipped with the interpreter for both pytz and zoneinfo",
]

# Lord Howe, Adelaide and St John's change their clocks at instants that are not on a whole UTC hour
ZONES = ["America/Los_Angeles", "UTC", "Europe/Berlin", "Asia/Kolkata", "Australia/Lord_Howe", "Australia/Adelaide", "America/St_Johns"]
DST = [1552212000, 1572771600, 1553994000, 1572138000, 1570289400, 1554564600, 1583661600, 1604221200, 1570293000, 1554568200, 1552195800, 1572755400]
BASE = "http://fake.acn/api/v9/"


def rfc(epoch):
    return email.utils.formatdate(epoch, usegmt=True)


def make_doc(d):
    doc = {
        "_id": d["id"],
        "sessionID": "ses-" + d["id"],
        "timezone": d["zone"],
        "connectionTime": rfc(d["t"]),
        "disconnectTime": rfc(d["t"] + d["stay"]),
        "doneChargingTime": rfc(d["t"] + d["done"]) if d["done"] is not None else None,
        "kWhDelivered": d["kwh"],
        "spaceID": "CA-303",
        "note": d["note"],
        "userInputs": None,
        "clusterID": "0039",
    }
    if d["series"] is not None:
        doc["chargingCurrent"] = {"current": [1.5] * len(d["series"]), "timestamps": [rfc(d["t"] + k) for k in d["series"]]}
        doc["pilotSignal"] = {"pilot": [], "timestamps": []}
        doc["other"] = {"values": [1, 2]}
    return doc


class Transport:
    def __init__(self, pages):
        self.pages = pages
        self.requests = []
        self.heads = []

    def get(self, url, params=None, auth=None, **kw):
        self.requests.append({"url": url, "params": params, "auth": auth, "kw": kw})
        k = len(self.requests) - 1
        page = self.pages[min(k, len(self.pages) - 1)]
        resp = mock.Mock()
        resp.json.return_value = copy.deepcopy(page)
        resp.status_code = 200
        return resp

    def head(self, url, params=None, headers=None, auth=None, **kw):
        self.heads.append({"url": url, "params": params, "headers": headers, "auth": auth})
        resp = mock.Mock()
        resp.headers = {"x-total-count": "4711"}
        return resp


class SiteTransport:
    """Serves several result sets at once: the page is chosen by what the request asks for (the
    site in the path, the page number in a followed next link), not by how many requests came
    before - so two generators of one client can be consumed side by side."""

    def __init__(self, pages_by_site):
        self.pages_by_site = pages_by_site
        self.requests = []

    def get(self, url, params=None, auth=None, **kw):
        self.requests.append({"url": url, "params": params, "auth": auth})
        path, _, query = url.partition("?")
        site = [p for p in path.split("/") if p][-1]
        if site == "ts":
            site = [p for p in path.split("/") if p][-2]
        page = 1
        for part in query.split("&"):
            if part.startswith("page="):
                page = int(part[5:])
        resp = mock.Mock()
        resp.json.return_value = copy.deepcopy(self.pages_by_site[site][page - 1])
        resp.status_code = 200
        return resp


def build_pages(site, page_specs):
    pages, flat = [], []
    n = len(page_specs)
    for k, docs in enumerate(page_specs):
        flat += docs
        links = {"self": {"href": "sessions/x"}, "parent": {"href": "/"}}
        if k < n - 1:
            links["next"] = {"href": "sessions/%s?page=%d&tok=%s" % (site, k + 2, "abc%d" % k)}
        pages.append({"_items": [make_doc(d) for d in docs], "_links": links, "_meta": {"page": k + 1}})
    return pages, flat


def prop_interleaved(spec, rec):
    """Two session generators of ONE client alive at the same time (for each session of one
    query, run another query; or read two result sets in lock step): each generator still yields
    every session of its own result set exactly once, in server order."""
    pa, flat_a = build_pages("caltech", spec["pages_a"])
    pb, flat_b = build_pages("jpl", spec["pages_b"])
    tr = SiteTransport({"caltech": pa, "jpl": pb})
    client = DataClient("tok", url=BASE)
    ids_a = [d["id"] for d in flat_a]
    ids_b = [d["id"] for d in flat_b]
    with mock.patch.object(data_client.requests, "get", tr.get):
        if spec["mode"] == "nested":
            got_a, inner = [], []
            for doc in client.get_sessions("caltech"):
                got_a.append(doc["_id"])
                inner.append([x["_id"] for x in client.get_sessions("jpl", cond=spec["cond_b"])])
            require(got_a == ids_a, "sessions_not_each_once_in_order", lambda: "outer generator yielded %r while another query ran per session; its pages hold %r" % (got_a, ids_a))
            for k, got in enumerate(inner):
                require(got == ids_b, "sessions_not_each_once_in_order", lambda: "inner query %d yielded %r, its pages hold %r" % (k, got, ids_b))
            want_requests = len(pa) + len(ids_a) * len(pb)
        else:
            ga, gb = client.get_sessions("caltech"), client.get_sessions("jpl", cond=spec["cond_b"])
            got_a, got_b = [], []
            live = [(ga, got_a), (gb, got_b)]
            order = list(spec["turns"])
            i = 0
            while live:
                g, out = live[order[i % len(order)] % len(live)]
                i += 1
                try:
                    out.append(next(g)["_id"])
                except StopIteration:
                    live = [x for x in live if x[0] is not g]
            require(got_a == ids_a, "sessions_not_each_once_in_order", lambda: "generator A read in turns with generator B yielded %r, its pages hold %r" % (got_a, ids_a))
            require(got_b == ids_b, "sessions_not_each_once_in_order", lambda: "generator B read in turns with generator A yielded %r, its pages hold %r" % (got_b, ids_b))
            want_requests = len(pa) + len(pb)
    require(len(tr.requests) == want_requests, "request_count", lambda: "%d requests, expected %d" % (len(tr.requests), want_requests))
    labels = {"interleaved_" + spec["mode"]}
    if len(pa) > 1 and len(pb) > 1:
        labels.add("both_multi_page")
    rec.case(spec, labels, len(pa) > 1 and len(ids_a) > 1)


def prop_many_pages(spec, rec):
    """A result set of a thousand pages and more (a time-series query returns one session per
    page): every session once, in order, one request per page, to the very last page."""
    n = spec["n_pages"]
    page_specs = []
    for k in range(n):
        size = spec["sizes"][k % len(spec["sizes"])]
        page_specs.append([{"id": "doc-%d-%d" % (k, j), "zone": "UTC", "t": 1_500_000_000 + 60 * k, "stay": 3600, "done": None, "kwh": 1.0, "note": "", "series": None} for j in range(size)])
    pages, flat = build_pages("caltech", page_specs)
    tr = SiteTransport({"caltech": pages})
    client = DataClient("tok", url=BASE)
    with mock.patch.object(data_client.requests, "get", tr.get):
        got = []
        try:
            for doc in client.get_sessions("caltech", timeseries=spec["timeseries"]):
                got.append(doc["_id"])
        except RecursionError as e:
            require(False, "sessions_not_each_once_in_order", "after %d of %d sessions (%d requests) the generator died with %r" % (len(got), len(flat), len(tr.requests), e))
    want = [d["id"] for d in flat]
    require(got == want, "sessions_not_each_once_in_order", lambda: "%d sessions yielded, the %d pages hold %d (first difference at %r)" % (len(got), n, len(want), next((i for i, (a, b) in enumerate(zip(got, want)) if a != b), min(len(got), len(want)))))
    require(len(tr.requests) == n, "request_count", lambda: "%d requests for %d pages" % (len(tr.requests), n))
    rec.case(spec, {"thousand_pages_or_more"} if n >= 1000 else {"hundreds_of_pages"}, n >= 1000)


@st.composite
def many_pages_cases(draw):
    return {"n_pages": draw(st.sampled_from([300, 1200, 2500, 3500, 5000])), "sizes": draw(st.lists(st.sampled_from([1, 1, 1, 0, 2]), min_size=1, max_size=4)), "timeseries": draw(st.booleans())}


@st.composite
def interleaved_cases(draw):
    def pages(prefix):
        out, k = [], 0
        for _ in range(draw(st.integers(1, 4))):
            page = []
            for _ in range(draw(st.sampled_from([0, 1, 2, 3]))):
                d = draw(docs(k))
                d["id"] = "%s-%d" % (prefix, k)
                d["series"] = None
                page.append(d)
                k += 1
            out.append(page)
        return out

    return {"pages_a": pages("a"), "pages_b": pages("b"), "mode": draw(st.sampled_from(["nested", "lockstep"])), "cond_b": draw(st.sampled_from([None, "kWhDelivered > 5"])), "turns": draw(st.lists(st.integers(0, 1), min_size=1, max_size=6))}


def parse_request(req):
    url = req["url"]
    path, _, query = url.partition("?")
    params = {}
    if query:
        for part in query.split("&"):
            k, _, v = part.partition("=")
            params[unquote_plus(k)] = unquote_plus(v) if "%" in v or "+" in v and " " not in v else v
    if req.get("params"):
        for k, v in dict(req["params"]).items():
            params[k] = str(v)
    return path, params


def check_where(got, want_prefix, min_energy, clause):
    """The filter sent: the time window verbatim, the energy threshold as a number equal to the one
    given (whatever its rendering)."""
    if min_energy is None:
        require(got == want_prefix, clause, lambda: "where=%r, expected %r" % (got, want_prefix))
        return
    head = want_prefix + " and kWhDelivered > "
    require(isinstance(got, str) and got.startswith(head), clause, lambda: "where=%r, expected %r<threshold>" % (got, head))
    try:
        val = float(got[len(head):])
    except ValueError:
        val = None
    require(val is not None and val == float(min_energy), clause, lambda: "where=%r carries the energy threshold %r, the caller gave %r" % (got, got[len(head):], min_energy))


def check_datetime(val, epoch, zone, what):
    require(isinstance(val, datetime) and val.tzinfo is not None, "time_field_not_aware_datetime", lambda: "%s: %r" % (what, val))
    require(val.timestamp() == epoch, "time_field_instant_changed", lambda: "%s: %r is epoch %r, document says %r" % (what, val, val.timestamp(), epoch))
    want = datetime.fromtimestamp(epoch, zoneinfo.ZoneInfo(zone))
    require(val.utcoffset() == want.utcoffset(), "time_field_wrong_offset", lambda: "%s: %r has offset %r, zone %s is at %r then" % (what, val, val.utcoffset(), zone, want.utcoffset()))
    require((val.year, val.month, val.day, val.hour, val.minute, val.second) == (want.year, want.month, want.day, want.hour, want.minute, want.second), "time_field_wrong_wall_clock", lambda: "%s: wall clock %r, expected %r" % (what, val, want))


def near_dst(epoch):
    return any(abs(epoch - x) <= 86400 for x in DST)


def prop(spec, rec):
    pages = []
    flat = []
    npages = len(spec["pages"])
    for k, docs in enumerate(spec["pages"]):
        items = [make_doc(d) for d in docs]
        flat += docs
        links = {"self": {"href": "sessions/x"}, "parent": {"href": "/"}}
        if k < npages - 1:
            links["next"] = {"href": "sessions/%s?page=%d&tok=%s" % (spec["site"], k + 2, "abc%d" % k)}
        pages.append({"_items": items, "_links": links, "_meta": {"page": k + 1}})
    tr = Transport(pages)
    client = DataClient(spec["token"], url=BASE)
    q = spec["query"]
    labels = {"pages_%d" % min(npages, 3)}
    with mock.patch.object(data_client.requests, "get", tr.get), mock.patch.object(data_client.requests, "head", tr.head):
        if spec["site"] not in ("caltech", "jpl", "office001"):
            try:
                out = list(client.get_sessions(spec["site"], cond=q.get("cond")))
                ok = True
            except ValueError:
                ok = False
            require(not ok, "invalid_site_accepted", lambda: "site %r accepted" % spec["site"])
            require(not tr.requests and not tr.heads, "request_before_site_check", lambda: "%d requests were sent for an invalid site" % len(tr.requests))
            rec.case(spec, {"invalid_site"}, False)
            return
        if q["kind"] == "by_time":
            start = datetime.fromtimestamp(q["start"], pytz.timezone(q["zone"]))
            end = datetime.fromtimestamp(q["end"], pytz.timezone(q["zone"]))
            if q["count"]:
                got = client.get_sessions_by_time(spec["site"], start, end, min_energy=q["min_energy"], count=True)
                require(got == "4711" and len(tr.heads) == 1 and not tr.requests, "count_uses_one_head_request", lambda: "count returned %r with %d HEAD / %d GET requests" % (got, len(tr.heads), len(tr.requests)))
                path, params = parse_request(tr.heads[0])
                require(path == BASE + "sessions/" + spec["site"], "count_endpoint", lambda: "HEAD %r" % path)
                want = 'connectionTime >= "%s" and connectionTime <= "%s"' % (rfc(q["start"]), rfc(q["end"]))
                check_where(params.get("where"), want, q["min_energy"], "count_filter")
                require((tr.heads[0]["headers"] or {}).get("Authorization") == "Bearer " + spec["token"], "count_credentials", lambda: "headers %r" % tr.heads[0]["headers"])
                rec.case(spec, {"count"}, False)
                return
            out = list(client.get_sessions_by_time(spec["site"], start, end, min_energy=q["min_energy"], timeseries=q["timeseries"]))
            want_cond = 'connectionTime >= "%s" and connectionTime <= "%s"' % (rfc(q["start"]), rfc(q["end"]))
            want_params = {"where": want_cond, "sort": "connectionTime"}
            labels.add("by_time")
        else:
            out = list(client.get_sessions(spec["site"], cond=q["cond"], project=q["project"], sort=q["sort"], timeseries=q["timeseries"]))
            want_params = {k: v for k, v in (("where", q["cond"]), ("project", q["project"]), ("sort", q["sort"])) if v is not None}
    # every session once, in server order
    got_ids = [d["_id"] for d in out]
    want_ids = [d["id"] for d in flat]
    require(got_ids == want_ids, "sessions_not_each_once_in_order", lambda: "yielded %r, server pages hold %r (page sizes %r)" % (got_ids, want_ids, [len(p) for p in spec["pages"]]))
    require(len(tr.requests) == npages, "request_count", lambda: "%d requests for %d pages" % (len(tr.requests), npages))
    # first request
    path, params = parse_request(tr.requests[0])
    endpoint = BASE + "sessions/" + spec["site"] + ("/ts/" if q["timeseries"] else "")
    require(path == endpoint, "first_request_endpoint", lambda: "first request %r, expected %r" % (path, endpoint))
    want_params["max_results"] = "1" if q["timeseries"] else "100"
    if q["kind"] == "by_time":
        check_where(params.get("where"), want_params["where"], q["min_energy"], "first_request_parameters")
        params = dict(params, where=want_params["where"])
    require(params == want_params, "first_request_parameters", lambda: "parameters %r, expected %r" % (params, want_params))
    for k, r in enumerate(tr.requests):
        require(tuple(r["auth"] or ()) == (spec["token"], ""), "credentials", lambda: "request %d auth %r" % (k, r["auth"]))
        if k >= 1:
            want_url = BASE + pages[k - 1]["_links"]["next"]["href"]
            require(r["url"] == want_url and not r["params"], "next_link_followed", lambda: "request %d went to %r, the previous page's next link is %r" % (k, r["url"], want_url))
    # time conversion
    nt = False
    for doc, d in zip(out, flat):
        who = "document %s (%s)" % (d["id"], d["zone"])
        check_datetime(doc["connectionTime"], d["t"], d["zone"], who + " connectionTime")
        check_datetime(doc["disconnectTime"], d["t"] + d["stay"], d["zone"], who + " disconnectTime")
        if d["done"] is None:
            require(doc["doneChargingTime"] is None, "none_field_changed", lambda: "%s doneChargingTime %r" % (who, doc["doneChargingTime"]))
        else:
            check_datetime(doc["doneChargingTime"], d["t"] + d["done"], d["zone"], who + " doneChargingTime")
        require(doc["note"] == d["note"] and doc["kWhDelivered"] == d["kwh"] and doc["spaceID"] == "CA-303" and doc["userInputs"] is None and doc["clusterID"] == "0039" and doc["timezone"] == d["zone"] and doc["sessionID"] == "ses-" + d["id"], "other_field_changed", lambda: "%s: %r" % (who, doc))
        if d["series"] is not None:
            ts = doc["chargingCurrent"]["timestamps"]
            require(len(ts) == len(d["series"]), "timeseries_length", lambda: "%s: %d timestamps" % (who, len(ts)))
            for k, off in enumerate(d["series"]):
                check_datetime(ts[k], d["t"] + off, d["zone"], who + " chargingCurrent.timestamps[%d]" % k)
            require(doc["chargingCurrent"]["current"] == [1.5] * len(d["series"]) and doc["pilotSignal"] == {"pilot": [], "timestamps": []} and doc["other"] == {"values": [1, 2]}, "nested_field_changed", lambda: "%s nested fields %r" % (who, doc))
            labels.add("timeseries_document")
            if any(near_dst(d["t"] + off) for off in d["series"]):
                labels.add("series_across_dst")
            z = zoneinfo.ZoneInfo(d["zone"])
            offs = [datetime.fromtimestamp(d["t"] + off, z).utcoffset() for off in d["series"]]
            if len(offs) >= 3 and offs[0] == offs[-1] and any(o != offs[0] for o in offs[1:-1]):
                labels.add("series_interior_in_other_offset")
        if near_dst(d["t"]) or near_dst(d["t"] + d["stay"]):
            labels.add("near_dst")
            nt = True
    sizes = [len(p) for p in spec["pages"]]
    if any(sizes[i] == 0 and any(sizes[i + 1 :]) for i in range(len(sizes))):
        labels.add("empty_page_before_nonempty")
        nt = True
    if sizes and sizes[-1] == 0:
        labels.add("empty_last_page")
    if q["timeseries"]:
        labels.add("timeseries_query")
    rec.case(spec, labels, nt)


def prop_roundtrip(spec, rec):
    zone = spec["zone"]
    tz = pytz.timezone(zone)
    dt = datetime.fromtimestamp(spec["epoch"], tz) + timedelta(microseconds=spec["us"])
    s = http_date(dt)
    require(s == rfc(spec["epoch"]), "http_date_rendering", lambda: "http_date(%r) = %r, RFC 1123 says %r" % (dt, s, rfc(spec["epoch"])))
    back = parse_http_date(s, tz)
    check_datetime(back, spec["epoch"], zone, "parse_http_date(http_date(dt))")
    require(back == dt.replace(microsecond=0), "http_date_round_trip", lambda: "%r -> %r -> %r" % (dt, s, back))
    # the same instant expressed in another zone renders identically
    other = dt.astimezone(timezone(timedelta(hours=spec["other_offset"])))
    require(http_date(other) == s, "http_date_depends_on_zone", lambda: "%r renders %r, %r renders %r" % (dt, s, other, http_date(other)))
    rec.case(spec, {"zone_" + zone.split("/")[-1]} | ({"near_dst"} if near_dst(spec["epoch"]) else set()), near_dst(spec["epoch"]))


EPOCH = st.one_of(st.integers(1_400_000_000, 1_700_000_000), st.sampled_from(DST).flatmap(lambda x: st.integers(x - 7200, x + 7200)), st.sampled_from(DST).flatmap(lambda x: st.sampled_from([x - 1, x, x + 1, x - 3600, x + 3600])))


@st.composite
def docs(draw, k):
    t = draw(EPOCH)
    zone = draw(st.sampled_from(ZONES))
    stay = draw(st.sampled_from([0, 59, 3600, 7200, 86400, 40000]))
    series = None
    if draw(st.integers(0, 2)) == 0:
        shape = draw(st.sampled_from(["short", "short", "long", "unordered"]))
        if shape == "short":
            series = sorted(draw(st.lists(st.integers(0, 4 * 3600), min_size=0, max_size=5, unique=True)))
        else:
            # samples months apart (the series passes several DST changes and comes back to the
            # first sample's offset) or not in time order: every sample is converted on its own
            series = draw(st.lists(st.one_of(st.integers(0, 400 * 86400), st.sampled_from([0, 120 * 86400, 200 * 86400, 365 * 86400])), min_size=2, max_size=6, unique=True))
            if shape == "long":
                series = sorted(series)
    return {"id": "doc-%d" % k, "zone": zone, "t": t, "stay": stay, "done": draw(st.sampled_from([None, 1800, 3600])), "kwh": draw(st.sampled_from([0.5, 7.25, 13])), "note": draw(st.sampled_from(["hello", "Mon, 32 Foo 2019 25:61:00 GMT", "2019-03-10T02:30:00", ""])), "series": series}


@st.composite
def cases(draw):
    npages = draw(st.integers(1, 6))
    pages, k = [], 0
    for _ in range(npages):
        size = draw(st.sampled_from([0, 0, 1, 2, 3, 4]))
        page = []
        for _ in range(size):
            page.append(draw(docs(k)))
            k += 1
        pages.append(page)
    site = draw(st.sampled_from(["caltech", "jpl", "office001", "caltech", "jpl", "office001", "caltech", "Caltech", "mars", ""]))
    if draw(st.integers(0, 2)) == 0:
        s = draw(st.integers(1_500_000_000, 1_600_000_000))
        q = {"kind": "by_time", "start": s, "end": s + draw(st.integers(0, 10 ** 7)), "zone": draw(st.sampled_from(ZONES)), "min_energy": draw(st.one_of(st.sampled_from([None, 0, 2.5, 10, 12.3456789, 0.1 + 0.2, 1234567, 1e-7, 33.333333333]), st.floats(0, 100), st.integers(0, 10 ** 7))), "count": draw(st.integers(0, 3)) == 0, "timeseries": draw(st.booleans())}
    else:
        q = {
            "kind": "plain",
            "cond": draw(st.sampled_from([None, 'kWhDelivered > 5', 'connectionTime >= "Mon, 01 Apr 2019 07:00:00 GMT" and spaceID == "CA-303"', "userID != null"])),
            "project": draw(st.sampled_from([None, '{"sessionID": 1, "kWhDelivered": 1}'])),
            "sort": draw(st.sampled_from([None, "connectionTime", "-kWhDelivered"])),
            "timeseries": draw(st.booleans()),
        }
    return {"pages": pages, "site": site, "token": draw(st.sampled_from(["tok-1", "s3cr3t"])), "query": q}


ROUNDTRIP = st.fixed_dictionaries({"zone": st.sampled_from(ZONES), "epoch": EPOCH, "us": st.sampled_from([0, 0, 1, 500000, 999999]), "other_offset": st.sampled_from([-8, 0, 5.5, 10.5])})


def subchecks(tier):
    return [
        Given("paging_and_conversion", cases(), prop, quick=1200, thorough=80000, floors={"empty_page_before_nonempty": 0.101, "near_dst": 0.15, "timeseries_document": 0.2, "by_time": 0.08, "timeseries_query": 0.085, "series_interior_in_other_offset": 0.015}),
        Given("interleaved_generators", interleaved_cases(), prop_interleaved, quick=300, thorough=30000, floors={"both_multi_page": 0.168}, jobs_quick=2),
        Given("many_pages", many_pages_cases(), prop_many_pages, quick=6, thorough=200, floors={"thousand_pages_or_more": 0.15}, jobs_quick=2),
        Given("time_round_trip", ROUNDTRIP, prop_roundtrip, quick=1500, thorough=200000, floors={"near_dst": 0.3}, jobs_quick=2),
    ]


def replay(subcheck, spec, rec):
    return {"time_round_trip": prop_roundtrip, "interleaved_generators": prop_interleaved, "many_pages": prop_many_pages}.get(subcheck, prop)(spec, rec)
