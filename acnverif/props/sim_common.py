"""Simulation-level sub-checks shared between properties (built on acnverif.scenario)."""
import numpy as np

from .. import scenario as sc
from ..runner import Given, require


def prop_c03_sim(spec, rec):
    """0 <= charging_rates <= pilot_signals column-wise on a generated simulation."""
    h = sc.build_sim(spec)
    sc.run_sim(h)
    R, P = h.sim.charging_rates, h.sim.pilot_signals
    labels = sc.scenario_labels(spec)
    W = R.shape[1]
    require(P.shape[1] >= W, "pilot_matrix_covers_rates", "pilot matrix narrower than rate matrix")
    throttled = False
    for i, sid in enumerate(h.net.station_ids):
        for t in range(W):
            r, p = float(R[i, t]), float(P[i, t])
            require(r >= -1e-8, "sim_rate_nonnegative", lambda: "station %s period %d rate %r" % (sid, t, r))
            require(r <= p + 1e-8, "sim_rate_le_pilot", lambda: "station %s period %d rate %r > pilot %r" % (sid, t, r, p))
            if 0 < r < p - 1e-6:
                throttled = True
    for s in spec["sessions"]:
        ev = h.evs[s["id"]]
        b = s["battery"]
        require(ev.energy_delivered >= -1e-12, "sim_energy_nonnegative", lambda: "%s delivered %r" % (s["id"], ev.energy_delivered))
        require(b["init"] + ev.energy_delivered <= b["cap"] * (1 + 1e-9) + 1e-9, "sim_charge_le_capacity", lambda: "%s: init %r + delivered %r > capacity %r" % (s["id"], b["init"], ev.energy_delivered, b["cap"]))
    if throttled:
        labels.add("battery_throttled")
    if any(s["battery"]["model"] != "ideal" and s["battery"].get("noise", 0) > 0 for s in spec["sessions"]):
        labels.add("noise")
    rec.case(spec, labels, throttled)


def prop_c03_stochastic(spec, rec):
    """The same column-wise bound on simulations over the contributed StochasticNetwork (stations
    assigned at run time, waiting queue, early departure): 0 <= recorded rate <= recorded pilot,
    in particular nothing is recorded for a station nobody is connected to."""
    from . import c19

    picker = c19.Picker(spec["choices"])
    net, sim, evs = c19.build(spec)
    c19.run(sim, picker)
    R, P = np.array(sim.charging_rates, dtype=float), np.array(sim.pilot_signals, dtype=float)
    vacant_pilot = False
    for i, sid in enumerate(spec["stations"]):
        for t in range(min(R.shape[1], sim.iteration)):
            r, p = float(R[i, t]), float(P[i, t]) if t < P.shape[1] else 0.0
            require(r >= -1e-8, "sim_rate_nonnegative", lambda: "station %s period %d rate %r" % (sid, t, r))
            require(r <= p + 1e-8, "sim_rate_le_pilot", lambda: "stochastic network: station %s period %d rate %r > pilot %r" % (sid, t, r, p))
            if t in net.before and net.before[t][0][sid] is None:
                require(r == 0, "sim_rate_without_ev", lambda: "stochastic network: station %s period %d is vacant but records %r A" % (sid, t, r))
                if p > 0:
                    vacant_pilot = True
    labels = {"stochastic", "early_on" if spec["early"] else "early_off"}
    if vacant_pilot:
        labels.add("pilot_on_vacant_station")
    rec.case(spec, labels, vacant_pilot)


def c03_subchecks(tier):
    from . import c19

    return [
        Given("sim_bounds", sc.scenarios(), prop_c03_sim, quick=250, thorough=20000, floors={"battery_throttled": 0.25, "noise": 0.2}),
        Given("sim_bounds_stochastic", c19.cases(), prop_c03_stochastic, quick=150, thorough=10000, floors={"pilot_on_vacant_station": 0.081}, jobs_quick=2),
    ]


def replay_c03(subcheck, spec, rec):
    return (prop_c03_stochastic if subcheck == "sim_bounds_stochastic" else prop_c03_sim)(spec, rec)
