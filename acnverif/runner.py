"""Runner: drives the sub-checks of one property, collects evidence, reports violations.

See DESIGN.md section 2.  A property module (acnverif/props/cNN.py) provides

    ID, RULE, ASSUMPTIONS            -- strings / list of strings for the evidence file
    subchecks(tier) -> [SubCheck]    -- what to run
    replay(subcheck_name, spec)      -- run one saved case, raise on violation

Sub-check kinds: Given (Hypothesis strategy -> JSON spec -> property function),
Machine (Hypothesis RuleBasedStateMachine whose op log is the replay file) and
Exhaustive (finite domain enumerated completely over a process pool).
"""
import argparse
import hashlib
import importlib
import json
import multiprocessing
import os
import signal
import sys
import time
import traceback
import warnings
from collections import Counter

VERIF = os.path.dirname(os.path.dirname(os.path.abspath(__file__)))
REPO = os.path.abspath(os.environ.get("ACNVERIF_REPO", "/repo"))
# evidence/ and replays/ are written below OUT (only redirected by the mutation tool)
OUT = os.path.abspath(os.environ.get("ACNVERIF_OUT", VERIF))

ALL_IDS = ["C%02d" % i for i in range(1, 21)]


class Violation(AssertionError):
    """The property under test does not hold for the current case."""

    def __init__(self, clause, message=""):
        super().__init__("%s: %s" % (clause, message))
        self.clause = clause
        self.message = message


class HarnessError(Exception):
    """The machinery itself is broken or the run is inconclusive (exit 2)."""


def require(cond, clause, message=""):
    if not cond:
        if callable(message):
            message = message()
        raise Violation(clause, str(message))


# --------------------------------------------------------------------------- recorder


def canon(spec):
    return json.dumps(spec, sort_keys=True, separators=(",", ":"), default=_json_default)


def _json_default(o):
    try:
        import numpy as np

        if isinstance(o, np.generic):
            return o.item()
        if isinstance(o, np.ndarray):
            return o.tolist()
    except Exception:  # pragma: no cover
        pass
    if isinstance(o, (set, frozenset)):
        return sorted(o)
    if isinstance(o, complex):
        return [o.real, o.imag]
    return repr(o)


def spec_hash(spec):
    return int.from_bytes(hashlib.sha1(canon(spec).encode()).digest()[:8], "big")


def _truncate(spec, limit=1800):
    s = canon(spec)
    if len(s) <= limit:
        return json.loads(s)
    return {"truncated_json": s[:limit] + "...", "full_length": len(s)}


class Recorder:
    """Counts what a sub-check actually explored."""

    MAX_SAMPLES = 3

    def __init__(self, name=""):
        self.name = name
        self.evaluations = 0
        self.nontrivial = set()
        self.labels = Counter()
        self.samples = []
        self.counters = Counter()  # ambiguous, discarded, excluded_... etc.
        self.maxima = {}

    def case(self, spec, labels=(), nontrivial=False):
        self.evaluations += 1
        for lab in labels:
            self.labels[lab] += 1
        if nontrivial:
            h = spec_hash([self.name, spec])
            if h not in self.nontrivial:
                self.nontrivial.add(h)
                if len(self.samples) < self.MAX_SAMPLES:
                    self.samples.append(_truncate(spec))

    def count(self, key, n=1):
        self.counters[key] += n

    def maximum(self, key, value):
        value = float(value)
        if key not in self.maxima or value > self.maxima[key]:
            self.maxima[key] = value

    def dump(self):
        return {
            "name": self.name,
            "evaluations": self.evaluations,
            "nontrivial": list(self.nontrivial),
            "labels": dict(self.labels),
            "samples": self.samples,
            "counters": dict(self.counters),
            "maxima": dict(self.maxima),
        }

    def merge(self, d):
        self.evaluations += d["evaluations"]
        self.nontrivial.update(d["nontrivial"])
        self.labels.update(d["labels"])
        self.counters.update(d["counters"])
        for k, v in d["maxima"].items():
            self.maximum(k, v)
        for s in d["samples"]:
            if len(self.samples) < self.MAX_SAMPLES:
                self.samples.append(s)


# --------------------------------------------------------------------------- sub-checks


class SubCheck:
    kind = "abstract"

    def __init__(self, name, quick, thorough, floors=None, jobs_quick=4, min_nontrivial=0):
        self.name = name
        self.n = {"quick": quick, "thorough": thorough}
        # label -> minimal fraction of evaluations; below it the run is vacuous (exit 2)
        self.floors = floors or {}
        self.jobs_quick = jobs_quick
        self.min_nontrivial = min_nontrivial


class Given(SubCheck):
    """prop(spec, rec) is called on every spec drawn from strategy (a JSON value)."""

    kind = "given"

    def __init__(self, name, strategy, prop, quick, thorough, **kw):
        super().__init__(name, quick, thorough, **kw)
        self.strategy = strategy
        self.prop = prop


class Machine(SubCheck):
    """machine_cls: RuleBasedStateMachine subclass with attributes `log` (JSON op list)
    and class attribute `recorder` set by the runner; replay goes through
    module.replay(name, log)."""

    kind = "machine"

    def __init__(self, name, machine_cls, quick, thorough, steps=30, **kw):
        super().__init__(name, quick, thorough, **kw)
        self.machine_cls = machine_cls
        self.steps = steps


class Exhaustive(SubCheck):
    """items(tier) -> list of JSON specs (a finite domain, enumerated completely);
    prop(spec, rec).  quick/thorough are ignored (the domain decides)."""

    kind = "exhaustive"

    def __init__(self, name, items, prop, exhaustive_in=("quick", "thorough"), **kw):
        super().__init__(name, 0, 0, **kw)
        self.items = items
        self.prop = prop
        self.exhaustive_in = exhaustive_in


# --------------------------------------------------------------------------- failures


def classify(exc):
    """-> ("violation", clause) | ("harness", text)"""
    import hypothesis.errors as he

    if isinstance(exc, Violation):
        return "violation", exc.clause
    if type(exc).__name__ == "NonTermination" and hasattr(exc, "clause"):
        # step bound of the scenario layer: more simulated periods than the events account for
        return "violation", exc.clause
    if isinstance(exc, HarnessError):
        return "harness", str(exc)
    if isinstance(exc, (he.FailedHealthCheck, he.Unsatisfiable, he.InvalidArgument)):
        return "harness", "%s: %s" % (type(exc).__name__, exc)
    # Walk to the innermost frame that belongs either to the code under test or to this
    # machinery.  An exception that surfaces from acnportal (or from a library it called) is a
    # violation; one raised by our own code - even inside a callback that acnportal invoked, such
    # as an observing scheduler - is a harness error.
    tb = exc.__traceback__
    inner, inner_is_repo = None, False
    mine = os.path.join(VERIF, "acnverif")
    while tb is not None:
        fn = os.path.abspath(tb.tb_frame.f_code.co_filename)
        if fn.startswith(os.path.join(REPO, "acnportal")):
            inner, inner_is_repo = "%s:%s" % (os.path.relpath(fn, REPO), tb.tb_frame.f_code.co_name), True
        elif fn.startswith(mine):
            inner, inner_is_repo = "%s:%s" % (os.path.relpath(fn, VERIF), tb.tb_frame.f_code.co_name), False
        tb = tb.tb_next
    if inner is not None and inner_is_repo:
        return "violation", "exception:%s@%s" % (type(exc).__name__, inner)
    return "harness", "%s: %s (raised in %s)" % (type(exc).__name__, exc, inner)


def _failure_record(name, spec, exc):
    kind, clause = classify(exc)
    return {
        "kind": kind,
        "subcheck": name,
        "spec": json.loads(canon(spec)) if spec is not None else None,
        "clause": clause,
        "message": "".join(traceback.format_exception_only(type(exc), exc)).strip()[-1500:],
        "traceback": "".join(traceback.format_exception(type(exc), exc, exc.__traceback__))[-4000:],
    }


def _unwrap(exc):
    """Hypothesis may wrap failures (FlakyFailure / ExceptionGroup); find the first leaf."""
    seen = 0
    while hasattr(exc, "exceptions") and exc.exceptions and seen < 5:
        exc = exc.exceptions[0]
        seen += 1
    return exc


# --------------------------------------------------------------------------- drivers


def _hyp_settings(n, steps=None):
    from hypothesis import HealthCheck, Phase, settings

    kw = dict(
        max_examples=max(1, n),
        database=None,
        deadline=None,
        derandomize=False,
        report_multiple_bugs=False,
        print_blob=False,
        suppress_health_check=[
            HealthCheck.too_slow,
            HealthCheck.data_too_large,
            HealthCheck.large_base_example,
        ],
        phases=[Phase.generate, Phase.target, Phase.shrink],
    )
    if steps is not None:
        kw["stateful_step_count"] = steps
    return settings(**kw)


def run_given(sc, n, seed, rec):
    import hypothesis
    from hypothesis import given

    holder = {}

    @hypothesis.seed(seed)
    @_hyp_settings(n)
    @given(sc.strategy)
    def test(spec):
        try:
            sc.prop(spec, rec)
        except hypothesis.errors.HypothesisException:
            rec.count("discarded")
            raise
        except BaseException as e:  # noqa: B902 - recorded, re-raised for shrinking
            holder["fail"] = (spec, e)
            raise

    try:
        test()
    except BaseException as e:  # noqa: B902
        if isinstance(e, KeyboardInterrupt):
            raise
        if "fail" in holder:
            return _failure_record(sc.name, holder["fail"][0], holder["fail"][1])
        return _failure_record(sc.name, None, _unwrap(e))
    return None


def run_machine(sc, n, seed, rec):
    import hypothesis
    from hypothesis.stateful import run_state_machine_as_test

    holder = {}

    class Bound(sc.machine_cls):
        recorder = rec
        fail_holder = holder

    Bound.__name__ = sc.machine_cls.__name__
    Bound.__qualname__ = sc.machine_cls.__qualname__

    try:
        run_state_machine_as_test(hypothesis.seed(seed)(Bound), settings=_hyp_settings(n, sc.steps))
    except BaseException as e:  # noqa: B902
        if isinstance(e, KeyboardInterrupt):
            raise
        if "fail" in holder:
            return _failure_record(sc.name, holder["fail"][0], holder["fail"][1])
        return _failure_record(sc.name, None, _unwrap(e))
    return None


def run_items(sc, items, rec):
    for spec in items:
        try:
            sc.prop(spec, rec)
        except BaseException as e:  # noqa: B902
            if isinstance(e, KeyboardInterrupt):
                raise
            return _failure_record(sc.name, spec, e)
    return None


def _worker(args):
    pid, tier, name, shard, nshards, seed = args
    _quiet()
    mod = load_property(pid)
    sc = [s for s in mod.subchecks(tier) if s.name == name][0]
    rec = Recorder(name)
    t0 = time.time()
    try:
        if sc.kind == "exhaustive":
            items = list(sc.items(tier))
            fail = run_items(sc, items[shard::nshards], rec)
        else:
            total = sc.n[tier]
            n = total // nshards + (1 if shard < total % nshards else 0)
            if n <= 0:
                fail = None
            elif sc.kind == "given":
                fail = run_given(sc, n, seed * 1000 + shard, rec)
            else:
                fail = run_machine(sc, n, seed * 1000 + shard, rec)
    except BaseException as e:  # noqa: B902
        fail = _failure_record(name, None, e)
        fail["kind"] = "harness"
    return name, shard, rec.dump(), fail, time.time() - t0


def _quiet():
    warnings.simplefilter("ignore")


# --------------------------------------------------------------------------- property level


def load_property(pid):
    if REPO not in sys.path[:1]:
        sys.path.insert(0, REPO)
    import acnportal

    where = os.path.abspath(acnportal.__file__)
    if not where.startswith(REPO + os.sep):
        raise HarnessError("acnportal imported from %s, expected under %s" % (where, REPO))
    return importlib.import_module("acnverif.props." + pid.lower())


def known_findings(pid=None):
    path = os.path.join(VERIF, "known_findings.json")
    if not os.path.exists(path):
        return []
    with open(path) as f:
        data = json.load(f)
    out = data.get("findings", [])
    if pid is not None:
        out = [e for e in out if e.get("property") == pid]
    return out


def _matches_known(pid, failure):
    """A recorded-but-unrepaired defect: same property, same sub-check, same clause and the
    failing input satisfies the entry's structural predicate (all listed key paths equal)."""
    for e in known_findings(pid):
        if e.get("status") != "known":
            continue
        m = e.get("match", {})
        if m.get("subcheck") not in (None, failure["subcheck"]):
            continue
        if m.get("clause") not in (None, failure["clause"]):
            continue
        ok = True
        for path, want in m.get("spec_equals", {}).items():
            cur = failure["spec"]
            try:
                for part in path.split("."):
                    cur = cur[int(part)] if isinstance(cur, list) else cur[part]
            except (KeyError, IndexError, ValueError, TypeError):
                ok = False
                break
            if cur != want:
                ok = False
                break
        if ok:
            return e
    return None


def write_replay(pid, failure, tier, seed):
    d = os.path.join(OUT, "replays", pid)
    os.makedirs(d, exist_ok=True)
    payload = {
        "property": pid,
        "subcheck": failure["subcheck"],
        "clause": failure["clause"],
        "message": failure["message"],
        "tier": tier,
        "seed": seed,
        "spec": failure["spec"],
    }
    h = hashlib.sha1(canon([failure["subcheck"], failure["spec"]]).encode()).hexdigest()[:12]
    path = os.path.join(d, "%s.json" % h)
    with open(path, "w") as f:
        json.dump(payload, f, indent=1, default=_json_default)
    return path


def write_evidence(pid, mod, tier, seed, recs, wall, violations, exhaustive, notes):
    total_eval = sum(r.evaluations for r in recs.values())
    total_nt = sum(len(r.nontrivial) for r in recs.values())
    samples = []
    for r in recs.values():
        for s in r.samples[:2]:
            samples.append({"subcheck": r.name, "case": s})
    if not samples:
        samples = [{"note": "no non-trivial case was recorded"}]
    per = {}
    for name, r in recs.items():
        per[name] = {
            "evaluations": r.evaluations,
            "distinct_nontrivial": len(r.nontrivial),
            "labels": dict(sorted(r.labels.items())),
            "counters": dict(sorted(r.counters.items())),
            "maxima": r.maxima,
        }
    ev = {
        "property_id": pid,
        "tier": tier,
        "seed": seed,
        "level": "exploration",
        "coverage": {
            "evaluations": total_eval,
            "distinct_nontrivial": total_nt,
            "rule": mod.RULE,
            "samples": samples,
            "exhaustive": bool(exhaustive),
            "subchecks": per,
            "notes": notes,
        },
        "assumptions": list(getattr(mod, "ASSUMPTIONS", [])),
        "wall_s": round(wall, 2),
        "violations": violations,
    }
    d = os.path.join(OUT, "evidence")
    os.makedirs(d, exist_ok=True)
    path = os.path.join(d, "%s.json" % pid)
    ev = _strict(json.loads(json.dumps(ev, default=_json_default)))
    with open(path, "w") as f:
        json.dump(ev, f, indent=1, allow_nan=False)
    _validate_evidence(ev)
    return path


def _strict(o):
    """Evidence files are strict JSON: non-finite floats (generated on purpose, e.g. an infinite
    pilot) are written as strings."""
    if isinstance(o, float) and (o != o or o in (float("inf"), float("-inf"))):
        return repr(o)
    if isinstance(o, dict):
        return {k: _strict(v) for k, v in o.items()}
    if isinstance(o, list):
        return [_strict(v) for v in o]
    return o


def _validate_evidence(ev):
    schema_path = "/root/.vp/EVIDENCE.schema.json"
    try:
        import jsonschema  # noqa: F401
    except Exception:
        return
    if not os.path.exists(schema_path):
        return
    import jsonschema

    with open(schema_path) as f:
        schema = json.load(f)
    jsonschema.validate(ev, schema)


def corpus_entries(pid):
    d = os.path.join(VERIF, "corpus", pid)
    if not os.path.isdir(d):
        return []
    out = []
    for fn in sorted(os.listdir(d)):
        if fn.endswith(".json"):
            with open(os.path.join(d, fn)) as f:
                out.append((os.path.join(d, fn), json.load(f)))
    return out


def run_property(pid, tier, seed, jobs=None):
    t0 = time.time()
    mod = load_property(pid)
    subs = mod.subchecks(tier)
    recs = {s.name: Recorder(s.name) for s in subs}
    failures = []
    notes = []

    for e in known_findings(pid):
        if e.get("status") == "known":
            print("KNOWN-FINDING: property=%s %s" % (pid, e.get("what", "")))

    # 1. corpus replay (seconds; regression inputs of repaired defects and seeded mutants)
    crec = Recorder("corpus")
    for path, entry in corpus_entries(pid):
        try:
            mod.replay(entry["subcheck"], entry["spec"], crec)
        except BaseException as e:  # noqa: B902
            if isinstance(e, KeyboardInterrupt):
                raise
            f = _failure_record(entry["subcheck"], entry["spec"], e)
            f["corpus_file"] = path
            failures.append(f)
    if crec.evaluations:
        recs["corpus"] = crec

    # 2. generated search
    if not any(f["kind"] == "violation" for f in failures):
        tasks = []
        for s in subs:
            if s.kind == "exhaustive":
                nshards = jobs or (16 if tier == "thorough" else s.jobs_quick)
            else:
                nshards = jobs or (16 if tier == "thorough" else s.jobs_quick)
                nshards = max(1, min(nshards, s.n[tier]))
            for shard in range(nshards):
                tasks.append((pid, tier, s.name, shard, nshards, seed))
        ncpu = min(16, os.cpu_count() or 1, len(tasks)) or 1
        if ncpu <= 1:
            results = [_worker(t) for t in tasks]
        else:
            ctx = multiprocessing.get_context("fork")
            with ctx.Pool(ncpu, maxtasksperchild=1) as pool:
                results = pool.map(_worker, tasks, chunksize=1)
        for name, shard, dump, fail, secs in results:
            recs[name].merge(dump)
            if fail is not None:
                fail["shard"] = shard
                failures.append(fail)

    # 3. vacuity floors (harness failure, not a pass and not a violation)
    vacuous = []
    if not failures:
        for s in subs:
            r = recs[s.name]
            for lab, frac in s.floors.items():
                have = r.labels.get(lab, 0) / max(1, r.evaluations)
                if have < frac:
                    vacuous.append("%s: label %s at %.3f < floor %.3f" % (s.name, lab, have, frac))
            if len(r.nontrivial) < s.min_nontrivial:
                vacuous.append("%s: %d non-trivial cases < %d" % (s.name, len(r.nontrivial), s.min_nontrivial))

    exhaustive = any(s.kind == "exhaustive" and tier in s.exhaustive_in for s in subs)
    violations = []
    harness = []
    for f in failures:
        if f["kind"] == "violation":
            k = _matches_known(pid, f)
            if k is not None:
                notes.append("known finding met: %s" % k.get("what"))
                continue
            violations.append(f)
        else:
            harness.append(f)

    wall = time.time() - t0
    try:
        write_evidence(pid, mod, tier, seed, recs, wall, len(violations), exhaustive, notes)
    except Exception as e:  # evidence that does not validate is a harness failure
        print("HARNESS-ERROR: evidence not written/valid: %r" % (e,))
        return 2

    summary = "%s tier=%s seed=%d evaluations=%d nontrivial=%d wall=%.1fs" % (
        pid,
        tier,
        seed,
        sum(r.evaluations for r in recs.values()),
        sum(len(r.nontrivial) for r in recs.values()),
        wall,
    )
    if violations:
        for f in violations:
            path = f.get("corpus_file") or write_replay(pid, f, tier, seed)
            print("--- violation in sub-check %s clause %s\n%s" % (f["subcheck"], f["clause"], f["message"]))
            print("VIOLATION property=%s replay=%s" % (pid, path))
        print(summary)
        return 1
    if harness or vacuous:
        for f in harness:
            print("HARNESS-ERROR in sub-check %s: %s\n%s" % (f["subcheck"], f["clause"], f.get("traceback", "")))
        for v in vacuous:
            print("HARNESS-ERROR vacuous: " + v)
        print(summary)
        return 2
    print("OK " + summary)
    return 0


def do_replay(pid, path):
    mod = load_property(pid)
    with open(path) as f:
        payload = json.load(f)
    rec = Recorder("replay")
    _quiet()
    try:
        mod.replay(payload["subcheck"], payload["spec"], rec)
    except BaseException as e:  # noqa: B902
        f = _failure_record(payload["subcheck"], payload["spec"], e)
        if f["kind"] == "violation":
            print(f["message"])
            print("VIOLATION property=%s replay=%s" % (pid, path))
            return 1
        print("HARNESS-ERROR: %s\n%s" % (f["clause"], f["traceback"]))
        return 2
    print("OK replay %s holds" % path)
    return 0


def _alarm(signum, frame):  # pragma: no cover
    print("HARNESS-ERROR: watchdog expired; run is inconclusive")
    os._exit(2)


def main(argv):
    ap = argparse.ArgumentParser(prog="check")
    ap.add_argument("pid", nargs="?")
    ap.add_argument("--tier", choices=["quick", "thorough"], default=None)
    ap.add_argument("--replay", default=None)
    ap.add_argument("--list", action="store_true")
    ap.add_argument("--jobs", type=int, default=None)
    a = ap.parse_args(argv)
    if a.list:
        print(" ".join(ALL_IDS))
        return 0
    if a.pid not in ALL_IDS:
        print("unknown property id %r" % (a.pid,))
        return 2
    tier = a.tier or os.environ.get("VERIF_TIER") or "quick"
    if tier not in ("quick", "thorough"):
        tier = "quick"
    try:
        seed = int(os.environ.get("VERIF_SEED", "1"))
    except ValueError:
        seed = 1
    _quiet()
    signal.signal(signal.SIGALRM, _alarm)
    signal.alarm(20 * 60 if tier == "quick" else 3 * 3600)
    try:
        if a.replay:
            return do_replay(a.pid, a.replay)
        return run_property(a.pid, tier, seed, a.jobs)
    except HarnessError as e:
        print("HARNESS-ERROR: %s" % (e,))
        return 2
    except Exception:
        print("HARNESS-ERROR: unexpected\n" + traceback.format_exc())
        return 2
