"""Scenario layer: Hypothesis strategies producing plain-JSON scenario specs, a build layer that
turns a spec into fresh acnportal objects, scripted / recording schedulers, and the run-loop
reference model (DESIGN.md 2.2, 2.3).

A scenario spec is a dict
  period, start (ISO string), stations[], constraints[], sessions[], recomputes[], event_order[],
  scheduler{}, zs[] (standard-normal draws handed to the battery noise), store_history
and nothing in it refers to live objects, so a shrunk failure is its own replay file.
"""
import math
import warnings
from datetime import datetime, timedelta

import numpy as np
from hypothesis import strategies as st

from acnportal.acnsim import (
    EV,
    EVSE,
    Battery,
    ChargingNetwork,
    Event,
    Current,
    DeadbandEVSE,
    EventQueue,
    FiniteRatesEVSE,
    Linear2StageBattery,
    PluginEvent,
    RecomputeEvent,
    Simulator,
    UnplugEvent,
)
from acnportal.algorithms import (
    BaseAlgorithm,
    RoundRobin,
    SimpleRampdown,
    SortedSchedulingAlgo,
    UncontrolledCharging,
    earliest_deadline_first,
    first_come_first_served,
    largest_remaining_processing_time,
    last_come_first_served,
    least_laxity_first,
)

from .obs import NoiseFeed

SORTS = {
    "fcfs": first_come_first_served,
    "lcfs": last_come_first_served,
    "edf": earliest_deadline_first,
    "llf": least_laxity_first,
    "lrpt": largest_remaining_processing_time,
}

# station ids are registered in this (non-lexicographic) pool order after a permutation
STATION_POOL = ["st-q", "st-b", "st-z", "st-a", "st-m", "st-c"]
# constraint names are free text: brackets, wildcards, blanks
ODD_NAMES = ["Panel [A]", "Transformer [480V]", "feeder*", "line?", "Primary A", "[x]"]
BIG_POOL = ["PS-%d" % i for i in (10, 9, 2, 1, 11, 3, 20, 4, 12, 5, 100, 6, 7, 8)]
# station ids are free text too: digits only ("10" < "9" as strings), case twins, blanks, accents,
# separators, a leading zero, one id a prefix of another
ODD_ID_POOL = ["10", "9", "2", "A", "a", "st 1", "\u00e9-7", "x/y", "a.b", "#3", "01", "A1", ""]

# --------------------------------------------------------------------------- build layer


def parse_start(spec):
    """Simulation start; with spec["start_tz"] = "pytz:<zone>" / "zoneinfo:<zone>" / "utc:" the same
    wall clock as an aware datetime (the tutorials localise the start with pytz)."""
    naive = datetime.fromisoformat(spec.get("start", "2020-03-01T08:00:00"))
    tz = spec.get("start_tz")
    if not tz:
        return naive
    kind, _, zone = tz.partition(":")
    if kind == "pytz":
        import pytz

        return pytz.timezone(zone).localize(naive)
    if kind == "zoneinfo":
        import zoneinfo

        return naive.replace(tzinfo=zoneinfo.ZoneInfo(zone))
    from datetime import timezone

    return naive.replace(tzinfo=timezone.utc)


def make_evse(s):
    k = s["kind"]
    if k == "cont":
        mx = float("inf") if s["max"] is None else s["max"]
        return EVSE(s["id"], max_rate=mx, min_rate=s.get("min", 0))
    if k == "deadband":
        return DeadbandEVSE(s["id"], deadband_end=s.get("end", 6), max_rate=s["max"])
    if k == "finite":
        return FiniteRatesEVSE(s["id"], list(s["rates"]))
    raise ValueError(k)


_EVSES = {}  # id(network) -> {station id: EVSE object}; filled by build_network, read by Handle


def build_network(spec, cls=ChargingNetwork, station_order=None, constraint_order=None):
    kw = {}
    if "net_vtol" in spec:
        kw = {"violation_tolerance": spec["net_vtol"], "relative_tolerance": spec["net_rtol"]}
    net = cls(**kw)
    stations = spec["stations"]
    if station_order is not None:
        stations = [stations[i] for i in station_order]
    evses = {}
    for s in stations:
        evse = make_evse(s)
        evses[s["id"]] = evse  # handed in by us, so readable without private access
        net.register_evse(evse, s["voltage"], s["phase"])
    if isinstance(net, TraceNetwork):
        net.evse_objs = evses
    _EVSES[id(net)] = evses
    cons = spec["constraints"]
    if constraint_order is not None:
        cons = [cons[i] for i in constraint_order]
    for c in cons:
        net.add_constraint(Current(dict(c["coeffs"])), c["limit"], name=c["name"])
    if spec.get("pre_unplug"):
        # "free every station before use", written with the old one-argument form
        with warnings.catch_warnings():
            warnings.simplefilter("ignore")
            for sid in list(net.station_ids):
                for _ in range(int(spec["pre_unplug"])):
                    net.unplug(sid)
    return net


def build_battery(b):
    if b["model"] == "ideal":
        return Battery(b["cap"], b["init"], b["maxp"])
    return Linear2StageBattery(
        b["cap"],
        b["init"],
        b["maxp"],
        noise_level=b.get("noise", 0),
        transition_soc=b.get("tsoc", 0.8),
        charge_calculation="continuous" if b["model"] == "cont" else "stepwise",
    )


def build_ev(s, shift=0):
    est = s.get("est_departure")
    return EV(
        s["arrival"] + shift,
        s["departure"] + shift,
        s["energy"],
        s["station"],
        s["id"],
        build_battery(s["battery"]),
        estimated_departure=None if est is None else est + shift,
    )


def scribble_on_table(net):
    """A caller post-processes the table constraints_as_df() handed out - flips signs, blanks it,
    writes through its numpy view.  The table is the caller's; whatever pandas / numpy refuse
    (read-only buffers) is refused, nothing here touches the network's own attributes."""
    with warnings.catch_warnings():
        warnings.simplefilter("ignore")
        try:
            tbl = net.constraints_as_df()
        except Exception:  # a network without constraints has no table
            return False
        if tbl is None:
            return False
        for edit in (
            lambda: tbl.__setitem__(tbl < 0, 7.0),
            lambda: tbl.where(tbl >= 0, -tbl, inplace=True),
            lambda: tbl.iloc.__setitem__((slice(None), slice(None)), 0.0),
            lambda: tbl.values.__setitem__(Ellipsis, 0.0),
            lambda: np.asarray(tbl).__setitem__(Ellipsis, 0.0),
            lambda: tbl.to_numpy().__setitem__(Ellipsis, 0.0),
        ):
            try:
                edit()
            except (ValueError, TypeError, KeyError, IndexError):
                pass
    return True


def scribble_on_results(sim):
    """A caller post-processes the result tables the simulator hands out (charging_rates_as_df,
    pilot_signals_as_df) in place - blanking small values, clipping, zeroing through the numpy
    view.  The tables are the caller's; whatever pandas / numpy refuse is refused."""
    with warnings.catch_warnings():
        warnings.simplefilter("ignore")
        for getter in (sim.charging_rates_as_df, sim.pilot_signals_as_df):
            try:
                tbl = getter()
            except Exception:
                continue
            for edit in (
                lambda: tbl.__setitem__(tbl < 6, 0.0),
                lambda: tbl.clip(upper=1.0, inplace=True),
                lambda: tbl.iloc.__setitem__((slice(None), slice(None)), 0.0),
                lambda: tbl.values.__setitem__(Ellipsis, 0.0),
                lambda: tbl.to_numpy().__setitem__(Ellipsis, 0.0),
            ):
                try:
                    edit()
                except (ValueError, TypeError, KeyError, IndexError):
                    pass


class TaggedPluginEvent(PluginEvent):
    """A user's own extension of a stock event class: it carries a tag and is otherwise the
    event it derives from (same event_type, same precedence, same constructor)."""

    tag = "fleet"


class TaggedUnplugEvent(UnplugEvent):
    tag = "fleet"


class TaggedRecomputeEvent(RecomputeEvent):
    tag = "fleet"


def build_events(spec, evs, shift=0, order=None):
    sub = bool(spec.get("subclassed"))
    # with "subclassed", every other plug-in and all stand-alone recompute / unplug events are
    # instances of user-defined subclasses of the stock event classes
    # sessions with "added_at" are not known when the queue is first filled: their plug-in events are
    # added while the run is in progress (late_sessions_due)
    events = [(TaggedPluginEvent if sub and k % 2 == 0 else PluginEvent)(evs[s["id"]].arrival, evs[s["id"]]) for k, s in enumerate(spec["sessions"]) if s.get("added_at") is None]
    events += [(TaggedRecomputeEvent if sub else RecomputeEvent)(t + shift) for t in spec.get("recomputes", [])]
    # explicit departures ahead of the session's own departure (the simulator's own unplug event
    # at ev.departure then finds the EV gone)
    events += [(TaggedUnplugEvent if sub else UnplugEvent)(u["t"] + shift, evs[u["session"]]) for u in spec.get("early_unplugs", [])]
    # plain Event objects (no type): they are popped and logged in their period but ask for nothing
    events += [Event(t + shift) for t in spec.get("inert", [])]
    order = spec.get("event_order") if order is None else order
    if order:
        idx = [i for i in order if i < len(events)]
        idx += [i for i in range(len(events)) if i not in idx]
        events = [events[i] for i in idx]
    q = EventQueue()
    if spec.get("queue_preused"):
        # the queue object has been asked about a late period before (it was empty then)
        q.get_current_events(int(spec["queue_preused"]))
    # half of the specs use add_events, the other half one add_event per event
    how = spec.get("bulk_add", True)
    if how == "mixed":
        # some events one by one (in the generated, non-chronological order), the rest in one batch
        k = max(1, len(events) * int(spec.get("mixed_share", 1)) // 4)
        if spec.get("mixed_k"):
            # three to five events one by one (enough for an unsorted heap array), then a batch
            # that is larger than what the queue holds
            k = min(int(spec["mixed_k"]), max(1, (len(events) - 1) // 2))
        for e in events[:k]:
            q.add_event(e)
        q.add_events(events[k:])
    elif how:
        q.add_events(events)
    else:
        for e in events:
            q.add_event(e)
    return q


def json_roundtrip(obj, cls, via="string"):
    """obj -> JSON -> cls.from_json(...) through one of the three documented channels: the
    returned string, a file path, an open text buffer.  Returns (loaded object, JSON text)."""
    import io
    import os
    import tempfile

    if via == "path":
        fd, path = tempfile.mkstemp(suffix=".json", prefix="acnverif-")
        os.close(fd)
        try:
            obj.to_json(path)
            with open(path) as f:
                text = f.read()
            loaded = cls.from_json(path)
        finally:
            os.unlink(path)
        return loaded, text
    if via == "buffer":
        buf = io.StringIO()
        obj.to_json(buf)
        text = buf.getvalue()
        return cls.from_json(io.StringIO(text)), text
    text = obj.to_json()
    return cls.from_json(text), text


class NonTermination(AssertionError):
    """run() simulated more periods than any event of the scenario can account for.  Raised from
    the per-period call every simulated period must make (update_pilots); the runner reports it as
    a violation (clause run_does_not_terminate), never as a time-out."""

    clause = "run_does_not_terminate"


class TraceNetwork(ChargingNetwork):
    """ChargingNetwork that records, at the one call every simulated period must make to deliver
    current (update_pilots), who occupies every station and which pilot each EVSE ends up with,
    keyed by the period index; a step bound turns a non-terminating run into an exception."""

    step_bound = None

    def __init__(self, *a, **k):
        super().__init__(*a, **k)
        self.trace = {}
        self.pilot_trace = {}
        self.evse_objs = {}
        self.updates = 0

    def update_pilots(self, pilots, i, period):
        self.updates += 1
        if self.step_bound is not None and self.updates > self.step_bound:
            raise NonTermination("more than %d periods simulated" % self.step_bound)
        self.trace[i] = {sid: (self.get_ev(sid).session_id if self.get_ev(sid) is not None else None) for sid in self.station_ids}
        super().update_pilots(pilots, i, period)
        self.pilot_trace[i] = {sid: self.evse_objs[sid].current_pilot for sid in self.station_ids}



# ------------------------------------------------------------------------- a second live site

_V_SWAP = {120: 240, 208: 277, 240: 120, 277: 208}


def decoy_spec(spec):
    """A second, unrelated site that happens to use the SAME station ids, session ids and
    constraint names as `spec` but differs in everything else (registration order, EVSE classes,
    voltages, phases, limits, batteries, requests, period, start, scheduler).  It is simulated in
    the same process as the primary scenario - before it, or from inside one of the primary
    scheduler's calls, the way a look-ahead scheduler runs a what-if simulation - and shares no
    object with it, so nothing the primary simulation does or records may depend on it."""
    stations = []
    for k, s in enumerate(reversed(spec["stations"])):
        v = _V_SWAP.get(int(s["voltage"]), 230)
        ph = {30: -90, -90: 150, 150: 30}.get(int(s["phase"]), 30)
        if s["kind"] == "finite":
            stations.append({"id": s["id"], "kind": "cont", "max": 50.0, "min": 0, "voltage": v, "phase": ph})
        elif k % 2:
            stations.append({"id": s["id"], "kind": "finite", "rates": [0, 7, 13, 21, 40], "voltage": v, "phase": ph})
        else:
            stations.append({"id": s["id"], "kind": "cont", "max": 20.0, "min": 0, "voltage": v, "phase": ph})
    cons = [{"name": c["name"], "limit": round(0.37 * min(c["limit"], 200.0) + 3, 3), "coeffs": {i: (1.0 if j % 2 else 0.5) for j, i in enumerate(sorted(c["coeffs"]))}} for c in reversed(spec["constraints"])]
    sessions = []
    for k, x in enumerate(spec["sessions"]):
        batt = {"model": "ideal", "cap": 40.0, "init": 4.0, "maxp": 7.0} if k % 2 else {"model": "cont", "cap": 30.0, "init": 3.0, "maxp": 9.0, "tsoc": 0.6, "noise": 0}
        sessions.append({"id": x["id"], "station": x["station"], "arrival": x["arrival"], "departure": x["departure"], "energy": 7.7, "est_departure": None, "battery": batt})
    primary = spec["scheduler"]
    if primary["kind"] in ("greedy", "rr"):
        # the same algorithm class with other options
        sch = {"kind": primary["kind"], "sort": "lcfs" if primary.get("sort") != "lcfs" else "edf", "uninterrupted": not primary.get("uninterrupted"), "max_recompute": 1, "inc": 2.5 if primary.get("inc") != 2.5 else 1}
        if not primary.get("estimator"):
            sch["estimator"] = {"up": 1, "down": 1, "inc": 1}
    else:
        sch = {"kind": "uncontrolled", "max_recompute": 1}
    return {
        "period": 3 if spec["period"] != 3 else 4,
        "start": "2019-07-04T12:00:00",
        "stations": stations,
        "constraints": cons,
        "sessions": sessions,
        "recomputes": [],
        # explicit early departures make room for the next session on the station: kept
        "early_unplugs": list(spec.get("early_unplugs", [])),
        "event_order": [],
        "bulk_add": True,
        "scheduler": sch,
        "zs": [0.0],
        "store_history": True,
    }


def run_decoy(spec):
    """Build and run the second site to completion (noise-free batteries: the generated noise
    draws of the primary scenario are not consumed)."""
    d = build_sim(decoy_spec(spec))
    import contextlib
    import io

    with warnings.catch_warnings(), contextlib.redirect_stdout(io.StringIO()):
        warnings.simplefilter("ignore")
        d.sim.run()
    if d.sim.iteration <= 0 or not d.sim.event_queue.empty():  # pragma: no cover
        raise RuntimeError("decoy simulation did not run")
    return d


def late_sessions_due(sched, t):
    """Bookings that come in while the simulated day is already running: from period `added_at` on
    (always before the session's arrival) the session's plug-in event is added to the simulator's
    own event queue - here from inside the scheduling algorithm, the one piece of user code that
    runs during run().  A session the simulator already knows (pending or plugged in, also after a
    JSON reload) is not added again."""
    specs = getattr(sched, "late_specs", None)
    if not specs:
        return
    sim = sched.interface._simulator
    pending = {e.ev.session_id for _, e in sim.event_queue.queue if hasattr(e, "ev") and e.event_type == "Plugin"}
    for x in specs:
        sid = x["id"]
        if t < x["added_at"] + sched.late_shift or sid in sim.ev_history or sid in pending:
            continue
        ev = sched.late_evs.get(sid) or build_ev(x, sched.late_shift)
        sched.late_evs[sid] = ev
        sim.event_queue.add_event(PluginEvent(ev.arrival, ev))


def decoy_due(sched, t):
    dec = getattr(sched, "decoy", None)
    if not dec or dec.get("mode") != "nested":
        return
    if t >= dec.get("t", 0) and not getattr(sched, "decoy_ran", False):
        sched.decoy_ran = True
        run_decoy(sched.decoy_parent)

# ----------------------------------------------------------------------------- schedulers


def materialise(entry, station_ids=None):
    """One scripted schedule entry -> the mapping handed to the simulator."""
    rows = entry.get("rows", {})
    order = entry.get("order") or list(rows)
    vt = entry.get("vtype", "float")
    out = {}
    for sid in order:
        vals = rows[sid]
        if vt == "int":
            vals = [int(v) if float(v).is_integer() else float(v) for v in vals]
        elif vt == "np":
            vals = [np.float64(v) for v in vals]
        elif vt == "nparray":
            vals = np.array(vals, dtype=float)
        else:
            vals = [float(v) for v in vals]
        out[sid] = vals
    return out


class Scripted(BaseAlgorithm):
    """Scheduler whose answer in period t is table[t % len(table)] (a function of t only, so that
    interrupted/resumed and shifted runs can be compared).  `observer(self, active)` is called
    first; `crash_at` makes schedule() raise once in that period."""

    def __init__(self, table, max_recompute=None, observer=None, crash_at=None, shift=0):
        super().__init__()
        self.table = table
        self.max_recompute = max_recompute
        self.observer = observer
        self.crash_at = crash_at
        self.crashed = False
        self.shift = shift
        self.submitted = {}
        self.post = None  # called as post(self, active_sessions, answer) after the answer is fixed
        self.probe = False  # ask interface.is_feasible about the answer and fall back to zeros
        self.malformed = None  # {"t": period, "entry": schedule entry returned once at t}
        self.malformed_done = False
        self.snapshot = None
        self.before_malformed = None
        self.by_calls = False
        self.ncalls = 0
        self.reuse_dict = False
        self._out = {}

    def schedule(self, active_sessions):
        t = self.interface.current_time
        decoy_due(self, t)
        late_sessions_due(self, t)
        if self.observer is not None:
            self.observer(self, active_sessions)
        if crash_due(self, t):
            raise Crash("scripted crash at %d" % t)
        if self.malformed is not None and t == self.malformed["t"] and not self.malformed_done:
            self.malformed_done = True
            self.before_malformed = self.snapshot() if self.snapshot is not None else None
            return materialise(self.malformed["entry"])
        if self.by_calls and self.table:
            # a scheduler playing back a recorded list: the n-th call gets the n-th entry
            out = materialise(self.table[self.ncalls % len(self.table)])
            self.ncalls += 1
        elif not self.table or t - self.shift < 0:
            out = {}
        else:
            out = materialise(self.table[(t - self.shift) % len(self.table)])
            if self.probe and len(out) and not self.interface.is_feasible(out):
                # a scheduler steering by the interface's feasibility answer (as in the tutorials)
                out = {k: [0.0] * len(v) for k, v in out.items()}
        if self.reuse_dict:
            # a scheduler that refills ONE mapping object call after call
            self._out.clear()
            self._out.update(out)
            self.submitted[t] = {k: list(v) for k, v in out.items()}
            if self.post is not None:
                self.post(self, active_sessions, self._out)
            return self._out
        self.submitted[t] = out
        if self.post is not None:
            self.post(self, active_sessions, out)
        return out


class Crash(Exception):
    pass


def crash_due(sched, t):
    """crash_at is one period (the scheduler raises once, there) or a collection of periods
    (it raises once in each of them: a run interrupted several times)."""
    ca = sched.crash_at
    if ca is None:
        return False
    if isinstance(ca, (list, tuple, set, frozenset)):
        done = sched.__dict__.setdefault("crashed_at", set())
        if t in ca and t not in done:
            done.add(t)
            sched.crashed = True
            return True
        return False
    if t == ca and not sched.crashed:
        sched.crashed = True
        return True
    return False


class Wrapped(BaseAlgorithm):
    """Delegates to a bundled algorithm and lets an observer look at every call."""

    def __init__(self, inner, observer=None, crash_at=None):
        super().__init__()
        self.inner = inner
        self.max_recompute = inner.max_recompute
        self.observer = observer
        self.crash_at = crash_at
        self.crashed = False
        self.submitted = {}
        self.post = None

    def register_interface(self, interface):
        self._interface = interface
        self.inner.register_interface(interface)

    def schedule(self, active_sessions):
        t = self.interface.current_time
        decoy_due(self, t)
        late_sessions_due(self, t)
        if self.observer is not None:
            self.observer(self, active_sessions)
        if crash_due(self, t):
            raise Crash("wrapped crash at %d" % t)
        out = self.inner.schedule(active_sessions)
        self.submitted[t] = out
        if self.post is not None:
            self.post(self, active_sessions, out)
        return out


class RecordingRampdown(SimpleRampdown):
    """SimpleRampdown that keeps a copy of what each get_maximum_rates call returned."""

    def __init__(self, *a, **k):
        super().__init__(*a, **k)
        self.returned = []

    def get_maximum_rates(self, sessions):
        out = super().get_maximum_rates(sessions)
        self.returned.append(dict(out))
        return out


def make_inner(sch):
    k = sch["kind"]
    if k == "uncontrolled":
        a = UncontrolledCharging()
    else:
        est = None
        if sch.get("estimator"):
            e = sch["estimator"]
            est = RecordingRampdown(e.get("up", 1), e.get("down", 1), e.get("inc", 1))
        kw = dict(estimate_max_rate=est is not None, max_rate_estimator=est, uninterrupted_charging=bool(sch.get("uninterrupted")))
        if k == "greedy":
            a = SortedSchedulingAlgo(SORTS[sch["sort"]], **kw)
        elif k == "rr":
            a = RoundRobin(SORTS[sch["sort"]], continuous_inc=sch.get("inc", 1), **kw)
        else:
            raise ValueError(k)
    if "max_recompute" in sch:
        a.max_recompute = sch["max_recompute"]
    return a


def make_scheduler(spec, observer=None, crash_at=None, shift=0):
    sch = spec["scheduler"]
    if sch["kind"] == "scripted":
        a = Scripted(sch["table"], sch.get("max_recompute"), observer, crash_at, shift)
        a.probe = bool(sch.get("probe"))
        a.by_calls = bool(sch.get("by_calls"))
        a.reuse_dict = bool(sch.get("reuse_dict"))
    else:
        a = Wrapped(make_inner(sch), observer, crash_at)
    a.decoy, a.decoy_parent = spec.get("decoy"), spec
    a.late_specs = [x for x in spec["sessions"] if x.get("added_at") is not None]
    a.late_evs, a.late_shift = {}, shift
    return a


def warmed_up_scheduler(spec, observer, crash_at, shift):
    """One scheduler object for a whole series of experiments: it has already served a complete
    run of the same experiment (its own network, EVs, queue and simulator, all finished by now)
    and is then attached to the simulator under test with update_scheduler()."""
    import contextlib
    import io

    sched = make_scheduler(dict(spec, decoy=None), None, None, shift)
    warm = build_sim(dict(spec, handed_down=False, decoy=None, late_fill=False, queue_preused=None), shift=shift, scheduler=sched)
    orig = np.random.normal
    np.random.normal = NoiseFeed(spec.get("zs") or [0.0])
    try:
        with warnings.catch_warnings(), contextlib.redirect_stdout(io.StringIO()):
            warnings.simplefilter("ignore")
            warm.sim.run()
    finally:
        np.random.normal = orig
    # the harness' own bookkeeping starts afresh; the algorithm object is the used one
    sched.submitted = {}
    if isinstance(sched, Scripted):
        sched.ncalls, sched.malformed_done, sched._out = 0, False, {}
    sched.observer, sched.crash_at, sched.crashed = observer, crash_at, False
    sched.decoy, sched.decoy_parent = spec.get("decoy"), spec
    sched.late_evs = {}
    return sched


class Handle:
    def __init__(self, spec, sim, net, evs, scheduler):
        self.spec, self.sim, self.net, self.evs, self.scheduler = spec, sim, net, evs, scheduler
        self.evses = _EVSES.pop(id(net), {})
        # the noise draws continue across interrupted / resumed run() calls
        self.feed = NoiseFeed(spec.get("zs") or [0.0])


def build_sim(spec, observer=None, crash_at=None, shift=0, net_cls=ChargingNetwork, scheduler=None, station_order=None, constraint_order=None, event_order=None, signals=None):
    if (spec.get("decoy") or {}).get("mode") == "before":
        run_decoy(spec)
    net = build_network(spec, net_cls, station_order, constraint_order)
    evs = {s["id"]: build_ev(s, shift) for s in spec["sessions"]}
    q = build_events(spec, evs, shift, event_order)
    late = None
    if spec.get("late_fill"):
        # the simulator is built around a still-empty queue object which the caller fills afterwards
        late, q = q, EventQueue()
    handed_down = bool(spec.get("handed_down")) and scheduler is None
    if handed_down:
        scheduler = warmed_up_scheduler(spec, observer, crash_at, shift)
    elif scheduler is None:
        scheduler = make_scheduler(spec, observer, crash_at, shift)
    sim = Simulator(
        net,
        Scripted([], None) if handed_down else scheduler,
        q,
        parse_start(spec),
        period=spec["period"],
        signals=signals,
        store_schedule_history=bool(spec.get("store_history")),
        verbose=bool(spec.get("verbose")),
    )
    if handed_down:
        # the documented way to give a simulator its algorithm after construction
        sim.update_scheduler(scheduler)
    if getattr(scheduler, "late_specs", None):
        scheduler.late_evs = evs
    if spec.get("peek"):
        # looking is not touching: before the run the caller inspects the simulator through the
        # algorithm's interface (period 0, nothing plugged in yet)
        with warnings.catch_warnings():
            warnings.simplefilter("ignore")
            iface = scheduler.interface
            iface.active_sessions()
            iface.infrastructure_info()
            iface.last_applied_pilot_signals, iface.last_actual_charging_rate, iface.get_prev_peak()
            iface.is_feasible({sid: [0.0] for sid in net.station_ids})
            for sid in list(net.station_ids)[:2]:
                iface.max_pilot_signal(sid), iface.evse_voltage(sid), iface.allowable_pilot_signals(sid)
    if late is not None:
        q.add_events([e for _, e in late.queue])
    return Handle(spec, sim, net, evs, scheduler)


def run_sim(h):
    """Run with the battery noise fed from the spec."""
    import contextlib
    import io

    orig = np.random.normal
    np.random.normal = h.feed
    # step bound: the run ends one period after its last event; every event is known when run() is
    # called (pending, or a departure of a known EV) or comes from the scenario (sessions added
    # while the run is in progress).  More simulated periods than that is non-termination.
    horizon = [h.sim.iteration]
    for _, e in h.sim.event_queue.queue:
        horizon.append(e.timestamp)
        if hasattr(e, "ev"):
            horizon.append(e.ev.departure)
    horizon += [ev.departure for ev in h.sim.ev_history.values()]
    shift = getattr(h.scheduler, "late_shift", 0) or 0
    horizon += [x["departure"] + shift for x in h.spec.get("sessions", []) if x.get("added_at") is not None]
    budget = max(horizon) - h.sim.iteration + 12
    count = [0]
    orig_update = ChargingNetwork.update_pilots

    def counted(self, *a, **k):
        if self is h.sim.network:
            count[0] += 1
            if count[0] > budget:
                raise NonTermination("run() has simulated %d periods from iteration %d on, the last event it can know of is in period %d" % (count[0], horizon[0], max(horizon)))
        return orig_update(self, *a, **k)

    ChargingNetwork.update_pilots = counted
    try:
        with warnings.catch_warnings(), contextlib.redirect_stdout(io.StringIO()):
            warnings.simplefilter("ignore")
            h.sim.run()
    finally:
        ChargingNetwork.update_pilots = orig_update
        np.random.normal = orig
        # a session that was added while the run was in progress by a scheduler object built later
        # (after a scheduler swap, on a restored simulator) is the EV object the simulator reports
        if isinstance(h.evs, dict):
            for x in h.spec.get("sessions", []):
                if x.get("added_at") is not None and x["id"] in h.sim.ev_history:
                    h.evs[x["id"]] = h.sim.ev_history[x["id"]]
    return h


# -------------------------------------------------------------------------- reference model

PREC = {"Unplug": 0, "Plugin": 10, "Recompute": 20, "": float("inf")}


class Model:
    """Independent replay of the simulator main loop for a spec (no batteries)."""

    def __init__(self, spec, shift=0):
        self.spec = spec
        self.station_ids = [s["id"] for s in spec["stations"]]
        self.sessions = {s["id"]: s for s in spec["sessions"]}
        self.shift = shift
        ev = []
        for s in spec["sessions"]:
            ev.append((s["arrival"] + shift, PREC["Plugin"], "Plugin", s["id"]))
            ev.append((s["departure"] + shift, PREC["Unplug"], "Unplug", s["id"]))
        for t in spec.get("recomputes", []):
            ev.append((t + shift, PREC["Recompute"], "Recompute", None))
        self.early = {u["session"]: u["t"] for u in spec.get("early_unplugs", [])}
        for sid, t in self.early.items():
            ev.append((t + shift, PREC["Unplug"], "Unplug", sid))
        for t in spec.get("inert", []):
            ev.append((t + shift, PREC[""], "", None))
        self.events = sorted(ev, key=lambda e: (e[0], e[1]))
        self.last = max(e[0] for e in self.events) if self.events else None
        # a plain Event is handled in its period but does not ask for a new schedule
        self.event_times = {e[0] for e in self.events if e[2] != ""}
        self.max_recompute = spec["scheduler"].get("max_recompute") if spec["scheduler"]["kind"] == "scripted" else spec["scheduler"].get("max_recompute", 1)
        self.invocations = []
        last = None
        if self.last is not None:
            mr = self.max_recompute
            for t in range(self.last + 1):
                if t in self.event_times or (mr is not None and (last is None or t - last >= mr)):
                    self.invocations.append(t)
                    last = t

    @property
    def end(self):
        """Value of sim.iteration after run()."""
        return 0 if self.last is None else self.last + 1

    def leaves(self, sid):
        """Period (unshifted) in which the session is really unplugged."""
        s = self.sessions[sid]
        return min(s["departure"], self.early.get(sid, s["departure"]))

    def occupant(self, station, t):
        """Session connected to `station` during period t (events of period t applied)."""
        for s in self.spec["sessions"]:
            if s["station"] == station and s["arrival"] + self.shift <= t < self.leaves(s["id"]) + self.shift:
                return s["id"]
        return None

    def events_up_to(self, t):
        return [e for e in self.events if e[0] <= t]

    def overlay(self, submitted, width):
        """Pilot matrix implied by the schedules in `submitted` (period -> mapping)."""
        n = len(self.station_ids)
        need = width
        for t, sch in submitted.items():
            if len(sch):
                need = max(need, t + len(next(iter(sch.values()))))
        M = np.zeros((n, need))
        for t in sorted(submitted):
            sch = submitted[t]
            if not len(sch):
                continue
            L = len(next(iter(sch.values())))
            for i, sid in enumerate(self.station_ids):
                M[i, t : t + L] = np.asarray(sch[sid], dtype=float) if sid in sch else 0.0
        return M

    def ledger(self, rates, session_id, upto, voltages=None):
        """kWh delivered to a session in periods [arrival, upto) according to a rate matrix."""
        s = self.sessions[session_id]
        i = self.station_ids.index(s["station"])
        V = self.spec["stations"][i]["voltage"]
        a, d = s["arrival"] + self.shift, min(self.leaves(session_id) + self.shift, upto)
        if d <= a:
            return 0.0
        return math.fsum(float(rates[i, t]) * V / 1000.0 * (self.spec["period"] / 60.0) for t in range(a, min(d, rates.shape[1])))


def event_key(e):
    sid = e.ev.session_id if hasattr(e, "ev") else None
    return (e.timestamp, e.precedence, e.event_type, sid)


# ------------------------------------------------------------------------------ strategies

# whole numbers come both as floats and as Python ints (the way callers usually write them)
VOLTS = st.sampled_from([120.0, 208.0, 208, 240, 277.0])
PHASES = st.sampled_from([30.0, -90, 150.0, 0, 180.0, -120])
# includes lengths that do not divide an hour (7, 8, 45), fractional ones (0.7, 2.5), one whose
# length in seconds is not a whole number (0.125 min = 7.5 s) and one whose float product with 60
# falls just below an integer (2.05 * 60 = 122.99999999999999)
PERIODS = st.sampled_from([1, 2.5, 5, 5, 7, 8, 15, 45, 60, 0.7, 2.05, 0.125])


@st.composite
def station_specs(draw, sid, kinds=("cont", "cont0", "deadband", "finite"), finite_max=True):
    k = draw(st.sampled_from(kinds))
    base = {"id": sid, "voltage": draw(VOLTS), "phase": draw(PHASES)}
    if k == "cont0":  # continuous from zero, finite maximum
        base.update(kind="cont", max=draw(st.sampled_from([16.0, 32.0, 32, 40, 80.0])), min=0)
    elif k == "cont":
        mx = draw(st.sampled_from([16.0, 32.0, 80.0] if finite_max else [16.0, 32.0, 80.0, None]))
        # min_rate > 0 rejects the 0 A pilot every idle period needs (EVSE._valid_rate), so such
        # stations cannot take part in a simulation; C13 covers them at the EVSE level
        base.update(kind="cont", max=mx, min=0)
    elif k == "deadband":
        base.update(kind="deadband", end=draw(st.sampled_from([6, 6, 8.0])), max=draw(st.sampled_from([16.0, 32.0, 48.0])))
    else:
        rates = draw(
            st.sampled_from(
                [
                    [0, 8, 16, 24, 32],
                    [0, 6, 7, 8, 9, 10, 12, 16, 20, 24, 28, 32],
                    [8, 16, 24, 32, 40, 48, 56, 64],
                    [6, 12.5, 20],
                    [32],
                    [0, 16],
                    [0.0] + [6.0 + 0.25 * k for k in range(105)],  # a finely graded station: 106 levels
                ]
            )
        )
        base.update(kind="finite", rates=list(rates))
    return base


def allowed_levels(s):
    """A finite menu of pilots the station accepts (used by scripted schedules)."""
    if s["kind"] == "cont":
        lo = s.get("min", 0)
        if s["max"] is None:
            # no upper limit: the advertised maximum (what UncontrolledCharging submits) is inf
            return sorted({lo, 100.0, 12.3, 1e6} | ({0.0} if lo <= 0 else set())) + [float("inf")]
        mx = s["max"]
        return sorted({lo, mx, round((lo + mx) / 2, 3), round(lo + (mx - lo) * 0.123, 3)} | ({0.0} if lo <= 0 else set()))
    if s["kind"] == "deadband":
        return sorted({0.0, float(s["end"]), float(s["max"]), round((s["end"] + s["max"]) / 2, 3)})
    return sorted({0.0} | {float(r) for r in s["rates"]})


def top_level(s):
    return allowed_levels(s)[-1]


@st.composite
def battery_specs(draw, models=("ideal", "cont", "step"), noise=True, fill=True):
    model = draw(st.sampled_from(models))
    cap = draw(st.sampled_from([1.0, 5.0, 20.0, 60.0] if fill else [200.0]))
    init = draw(st.sampled_from([0.0, 0.0, 0.5, 0.79, 0.9])) * cap
    if fill and draw(st.integers(0, 9)) == 0:
        # a hair below capacity (head-room of the order of the 1e-3 kWh "fully charged" tolerance)
        init = cap - draw(st.sampled_from([1e-4, 5e-4, 9.9e-4, 2e-3]))
    b = {"model": model, "cap": cap, "init": round(init, 6), "maxp": draw(st.sampled_from([1.5, 3.3, 6.6, 11.0, 50.0]))}
    if model != "ideal":
        b["tsoc"] = draw(st.sampled_from([0.8, 0.8, 0.5, 0.0, 0.95]))
        b["noise"] = draw(st.sampled_from([0, 0, 0.1, 1.0])) if noise else 0
    return b


@st.composite
def session_lists(draw, stations, max_per_station=3, window=6, max_stay=5, energies=(0.02, 0.5, 3.0, 12.0, 60.0), batteries=None, min_sessions=1, zero_energy=False):
    sessions = []
    k = 0
    batteries = battery_specs() if batteries is None else batteries
    for s in stations:
        t = draw(st.integers(0, window))
        m = draw(st.integers(0, max_per_station))
        for _ in range(m):
            gap = draw(st.sampled_from([0, 0, 0, 1, 2]))  # 0 = back-to-back reuse of the space
            a = t + gap
            d = a + draw(st.integers(1, max_stay))
            est = draw(st.sampled_from([None, None, 0, 1, -1, 3]))
            ses = {
                "id": "sess-%d" % k,
                "station": s["id"],
                "arrival": a,
                "departure": d,
                "energy": 0.0 if (zero_energy and draw(st.integers(0, 9)) == 0) else draw(st.sampled_from(list(energies))),
                "est_departure": None if est is None else max(a + 1, d + est),
                "battery": draw(batteries),
            }
            sessions.append(ses)
            k += 1
            t = d
    if len(sessions) < min_sessions:
        s = stations[0]
        a = draw(st.integers(0, window))
        sessions.append({"id": "sess-%d" % k, "station": s["id"], "arrival": a, "departure": a + draw(st.integers(1, max_stay)), "energy": draw(st.sampled_from(list(energies))), "est_departure": None, "battery": draw(batteries)})
    return sessions


@st.composite
def constraint_lists(draw, stations, max_constraints=4, limits=(20.0, 50, 100.0, 1000)):
    ids = [s["id"] for s in stations]
    out = []
    for j in range(draw(st.integers(0, max_constraints))):
        members = draw(st.lists(st.sampled_from(ids), min_size=1, max_size=len(ids), unique=True))
        coeffs = {i: draw(st.sampled_from([1.0, 1, 1, -1.0, 0.5, 0.25, 2, 1.5])) for i in members}
        # one in ten limits is a placeholder far above anything the site can draw (e.g. a service
        # entrance entered as 1e9 A): the others must be enforced all the same
        lim = 1e9 if draw(st.integers(0, 9)) == 0 else draw(st.sampled_from(list(limits)))
        out.append({"name": draw(st.sampled_from(ODD_NAMES)) + "-%d" % j if draw(st.integers(0, 3)) == 0 else "con-%d" % j, "limit": lim, "coeffs": coeffs})
    return out


@st.composite
def schedule_entries(draw, stations, max_len=4, empty_ok=True, vacant_ok=True, full=False, jitter=True):
    if empty_ok and draw(st.integers(0, 7)) == 0:
        return {"rows": {}}
    ids = [s["id"] for s in stations]
    subset = ids if full else draw(st.lists(st.sampled_from(ids), min_size=1, max_size=len(ids), unique=True))
    L = draw(st.integers(1, max_len))
    rows = {}
    all_zero = draw(st.integers(0, 7)) == 0  # "stop charging": a non-empty schedule of zeros
    for s in stations:
        if s["id"] in subset:
            lv = allowed_levels(s)
            vals = [0.0] * L if all_zero else [draw(st.sampled_from(lv + [lv[-1]])) for _ in range(L)]
            if jitter and not all_zero and draw(st.integers(0, 5)) == 0:
                # values up to 1e-3 A off an allowable value are accepted by every EVSE class and
                # must be applied and recorded as submitted
                k = draw(st.integers(0, L - 1))
                vals[k] = max(0.0, vals[k] + draw(st.sampled_from([9e-4, -9e-4, 5e-4, -5e-4])))
            rows[s["id"]] = vals
    order = list(draw(st.permutations(sorted(rows))))
    return {"rows": rows, "order": order, "vtype": draw(st.sampled_from(["float", "float", "int", "np", "nparray"]))}


@st.composite
def scripted_schedulers(draw, stations, max_len=4, always_max=False):
    mr = draw(st.sampled_from([None, None, 1, 1, 2, 3, 7]))
    if always_max:
        # top level for every station: either a one-period schedule recomputed every period, or
        # a 60-period schedule submitted only when an event occurs (max_recompute None)
        every_period = draw(st.booleans())
        L = 1 if every_period else 60
        rows = {s["id"]: [top_level(s)] * L for s in stations}
        return {"kind": "scripted", "max_recompute": 1 if every_period else None, "table": [{"rows": rows, "order": sorted(rows), "vtype": "float"}], "always_max": True}
    table = draw(st.lists(schedule_entries(stations, max_len), min_size=1, max_size=5))
    return {"kind": "scripted", "max_recompute": mr, "table": table}


@st.composite
def sorted_schedulers(draw, estimator=True, kinds=("greedy", "rr"), mr=(1,)):
    k = draw(st.sampled_from(kinds))
    sch = {"kind": k, "sort": draw(st.sampled_from(sorted(SORTS))), "uninterrupted": draw(st.booleans()), "max_recompute": draw(st.sampled_from(list(mr)))}
    if k == "rr":
        sch["inc"] = draw(st.sampled_from([0.1, 0.5, 1, 2.5]))
    if estimator and draw(st.integers(0, 2)) == 0:
        sch["estimator"] = {"up": draw(st.sampled_from([1, 0.5, 2])), "down": draw(st.sampled_from([1, 0.5, 3])), "inc": draw(st.sampled_from([1, 0.5, 2, 0]))}
    return sch


@st.composite
def scenarios(
    draw,
    kinds=("cont", "cont0", "deadband", "finite"),
    scheduler="any",
    max_stations=6,
    batteries=None,
    energies=(0.02, 0.5, 3.0, 12.0, 60.0),
    max_constraints=4,
    limits=(20.0, 50.0, 100.0, 1000.0),
    noise=True,
    window=6,
    max_per_station=3,
    sched_max_len=4,
    unlimited=True,
    extras=True,
):
    n = draw(st.integers(1, max_stations))
    ids = list(draw(st.permutations(STATION_POOL)))[:n]
    if max_stations >= 6 and draw(st.integers(0, 14)) == 0:
        # a larger site whose station ids carry numbers ("PS-10" sorts before "PS-2" as a string)
        n = draw(st.integers(8, 14))
        ids = list(draw(st.permutations(BIG_POOL)))[:n]
        max_per_station = min(max_per_station, 2)
    elif draw(st.integers(0, 11)) == 0:
        ids = list(draw(st.permutations(ODD_ID_POOL)))[:n]
    sched_kind = scheduler if scheduler != "any" else draw(st.sampled_from(["scripted", "scripted", "scripted", "always_max", "uncontrolled", "sorted"]))
    station_kinds = kinds
    if sched_kind == "sorted":
        station_kinds = tuple(k for k in kinds if k in ("cont0", "finite")) or ("cont0",)
    # round-robin does np.arange(min, max, inc): the sorted algorithms need finite maxima
    finite_max = sched_kind == "sorted" or not unlimited
    stations = [draw(station_specs(i, station_kinds, finite_max=finite_max)) for i in ids]
    cons = draw(constraint_lists(stations, max_constraints, limits))
    if extras and n >= 2 and max_constraints > 0 and draw(st.integers(0, 7)) == 0:
        # a single-phase site (every station on one angle) with a differential protection: the
        # current through station x minus the current through station y is limited in magnitude
        ang = draw(st.sampled_from([0.0, 0, 30.0, -90.0, 180.0]))
        for stn in stations:
            stn["phase"] = ang
        x, y = stations[0]["id"], stations[1]["id"]
        cons = [{"name": "differential", "limit": draw(st.sampled_from([6.0, 10.0, 20.0])), "coeffs": {x: 1.0, y: -1.0} if draw(st.booleans()) else {x: -1.0, y: 1.0}}] + cons
    if sched_kind == "always_max":
        # "exact" family: oversized ideal batteries and huge requests, so that an EV draws
        # current in every period in which it is connected
        batteries = st.just({"model": "ideal", "cap": 1e6, "init": 0.0, "maxp": 1e3})
        energies = (1e5,)
    batt = battery_specs(noise=noise) if batteries is None else batteries
    sessions = draw(session_lists(stations, max_per_station=max_per_station, window=window, energies=energies, batteries=batt, zero_energy=extras and sched_kind != "always_max"))
    if extras and draw(st.integers(0, 19)) == 0:
        # a busy space: 12-25 short stays following each other on the first station
        stn = stations[0]
        t = draw(st.integers(0, 3))
        many = []
        for j in range(draw(st.integers(12, 25))):
            d = t + draw(st.integers(1, 2))
            many.append({"id": "sess-m%d" % j, "station": stn["id"], "arrival": t, "departure": d, "energy": draw(st.sampled_from(list(energies))), "est_departure": None, "battery": draw(batt)})
            t = d + draw(st.sampled_from([0, 0, 1]))
        sessions = [x for x in sessions if x["station"] != stn["id"]] + many
    last = max(s["departure"] for s in sessions)
    bulk_add = draw(st.sampled_from([True, False, "mixed", "mixed"]))
    # with events added partly singly and partly in one batch, more stand-alone recompute events
    # make for more ways the two groups can interleave
    recomputes = draw(st.lists(st.integers(0, last + 3), min_size=4 if bulk_add == "mixed" else 0, max_size=8 if bulk_add == "mixed" else 3))
    inert = draw(st.lists(st.integers(0, last + 2), max_size=2)) if extras and draw(st.integers(0, 4)) == 0 else []
    if sched_kind == "scripted":
        sch = draw(scripted_schedulers(stations, max_len=sched_max_len))
    elif sched_kind == "always_max":
        sch = draw(scripted_schedulers(stations, always_max=True))
    elif sched_kind == "uncontrolled":
        sch = {"kind": "uncontrolled", "max_recompute": draw(st.sampled_from([1, 1, None, 2]))}
    else:
        sch = draw(sorted_schedulers(mr=(1, 1, 1, None, 2)))
    if sched_kind == "scripted" and draw(st.integers(0, 3)) == 0:
        sch["reuse_dict"] = True
    stretch = 1
    if extras and draw(st.integers(0, 19)) == 0:
        # the same history in slow motion: every time stamp multiplied by 25 or 60, so that the run
        # lasts hundreds to a couple of thousand periods, stays last for hundreds of periods and the
        # result matrices have to grow many times
        stretch = draw(st.sampled_from([25, 60]))
        for x in sessions:
            x["arrival"] *= stretch
            x["departure"] *= stretch
            if x.get("est_departure") is not None:
                x["est_departure"] *= stretch
        recomputes = [t * stretch for t in recomputes]
        inert = [t * stretch for t in inert]
        last *= stretch
        if sch.get("always_max") and sch.get("max_recompute") is None:
            # the "submit once per event" variant must cover the longest gap between events
            for e in sch["table"]:
                e["rows"] = {k: [v[0]] * (last + 2) for k, v in e["rows"].items()}
    if extras and len(sessions) >= 2 and draw(st.integers(0, 5)) == 0:
        # bookings that come in during the day: known to the simulator only from a generated period
        # before their arrival on (the first scheduler call at or after it adds the plug-in event).
        # The other sessions anchor the day: the run is under way - and the scheduler is being called
        # - up to their last event, whatever comes in later.  With max_recompute 1 several sessions
        # may come in late; otherwise one (a second newcomer would move the periodic calls).
        mr_ = sch.get("max_recompute") if sch["kind"] == "scripted" else sch.get("max_recompute", 1)
        cand = [x for x in sessions if draw(st.booleans())]
        if mr_ != 1:
            cand = cand[:1]
        if len(cand) == len(sessions):
            cand = cand[1:]
        anchors = [x for x in sessions if not any(x is c for c in cand)]
        probe = Model({"stations": stations, "sessions": anchors, "recomputes": recomputes, "inert": inert, "scheduler": sch})
        for x in cand:
            early = [t for t in probe.invocations if t < x["arrival"]]
            if early:
                x["added_at"] = draw(st.sampled_from(early))
    nev = len(sessions) + len(recomputes) + len(inert)
    return {
        "period": draw(PERIODS),
        # mostly an ordinary morning; sometimes the last evening of a month / year / February
        "start": draw(st.sampled_from(["2020-03-01T08:00:00"] * 4 + ["2021-04-30T22:00:00", "2020-12-31T23:15:00", "2020-02-29T23:30:00"])) if extras else "2020-03-01T08:00:00",
        "inert": inert,
        "verbose": extras and draw(st.integers(0, 5)) == 0,
        "pre_unplug": draw(st.sampled_from([0, 0, 0, 1, 3])) if extras else 0,
        "late_fill": extras and draw(st.integers(0, 4)) == 0,
        "subclassed": extras and draw(st.integers(0, 5)) == 0,
        "stations": stations,
        "constraints": cons,
        "sessions": sessions,
        "recomputes": recomputes,
        "event_order": list(draw(st.permutations(range(nev)))),
        "bulk_add": bulk_add,
        "mixed_share": draw(st.integers(1, 2)),
        "mixed_k": draw(st.sampled_from([None, 3, 4, 5])),
        "scheduler": sch,
        "zs": draw(st.lists(st.sampled_from([0.0, 0.3, -0.3, 1.0, -1.0, 3.0, -3.0]), min_size=1, max_size=6)),
        # the simulator keeps the returned mapping object itself in schedule_history, so a scheduler
        # that refills one mapping rewrites its own history: not combined (DESIGN.md 8.5d)
        "store_history": draw(st.booleans()) and not sch.get("reuse_dict"),
        "queue_preused": draw(st.sampled_from([None, None, None, 50])),
        "stretch": stretch,
        "peek": extras and draw(st.integers(0, 4)) == 0,
        # a second site with the same ids is simulated in this process: before the scenario is
        # built, or from inside one of its scheduler calls (what-if / look-ahead simulation)
        "decoy": draw(st.sampled_from([None] * 8 + [{"mode": "before"}, {"mode": "nested", "t": 0}, {"mode": "nested", "t": 1}, {"mode": "nested", "t": 3}])) if extras else None,
    }


def scenario_labels(spec):
    """Structural labels shared by all simulation-level checks."""
    labels = set()
    by_station = {}
    for s in spec["sessions"]:
        by_station.setdefault(s["station"], []).append(s)
    if any(len(v) >= 2 for v in by_station.values()):
        labels.add("two_sessions_one_station")
    for v in by_station.values():
        v = sorted(v, key=lambda s: s["arrival"])
        if any(a["departure"] == b["arrival"] for a, b in zip(v, v[1:])):
            labels.add("back_to_back")
    m = Model(spec)
    per_t = {}
    for e in m.events:
        per_t.setdefault(e[0], set()).add(e[2])
    if any(len(k) >= 2 for k in per_t.values()):
        labels.add("simultaneous_different_types")
    cnt = {}
    for e in m.events:
        cnt[e[0]] = cnt.get(e[0], 0) + 1
    if any(c >= 2 for c in cnt.values()):
        labels.add("simultaneous_events")
    if any(t > max(s["departure"] for s in spec["sessions"]) for t in spec.get("recomputes", [])):
        labels.add("recompute_after_last_departure")
    labels.add("sched_" + spec["scheduler"]["kind"])
    mr = m.max_recompute
    labels.add("mr_%s" % mr)
    if spec["constraints"]:
        labels.add("constrained")
    if len({s["voltage"] for s in spec["stations"]}) > 1:
        labels.add("mixed_voltage")
    if spec["period"] != int(spec["period"]):
        labels.add("fractional_period")
    if len(spec["stations"]) >= 8:
        labels.add("large_site_numbered_ids")
    if spec.get("inert"):
        labels.add("inert_events")
    if spec.get("verbose"):
        labels.add("verbose_simulator")
    if spec.get("pre_unplug"):
        labels.add("stations_freed_with_one_argument_unplug")
    if any(x["energy"] == 0 for x in spec["sessions"]):
        labels.add("zero_energy_session")
    if spec.get("start", "2020-03-01T08:00:00") != "2020-03-01T08:00:00":
        labels.add("start_on_last_evening_of_a_month")
    if spec["scheduler"].get("reuse_dict"):
        labels.add("scheduler_refills_one_mapping")
    if spec.get("bulk_add") == "mixed":
        labels.add("events_added_singly_and_in_bulk")
    if spec.get("late_fill"):
        labels.add("queue_filled_after_the_simulator_was_built")
    if spec.get("subclassed"):
        labels.add("user_defined_event_subclasses")
    if spec.get("decoy"):
        labels.add("second_site_same_ids_simulated_" + ("inside_a_scheduler_call" if spec["decoy"]["mode"] == "nested" else "first"))
    if spec.get("handed_down"):
        labels.add("scheduler_object_already_served_another_simulator")
    if any(x.get("added_at") is not None for x in spec["sessions"]):
        labels.add("sessions_added_while_the_run_is_in_progress")
    if spec.get("peek"):
        labels.add("inspected_through_the_interface_before_run")
    if len(spec["stations"]) >= 2 and len({float(x["phase"]) for x in spec["stations"]}) == 1:
        labels.add("single_angle_site")
    if spec.get("stretch", 1) > 1:
        labels.add("long_run_hundreds_of_periods")
    if max(len(v) for v in by_station.values()) >= 12:
        labels.add("dozens_of_sessions_on_one_station")
    if spec["stations"][0]["id"] in ODD_ID_POOL:
        labels.add("free_text_station_ids")
    return labels
