"""Base class for Hypothesis rule-based machines whose JSON op log is the replay file."""
from hypothesis.stateful import RuleBasedStateMachine


class LoggedMachine(RuleBasedStateMachine):
    """Sub-classes define `new_state()` and `apply(state, op, rec)` (shared with replay) and
    rules that call `self.do(op)`.  `finish(state, log, rec)` is called in teardown of a
    machine that did not fail and records the case."""

    recorder = None  # bound by the runner
    fail_holder = None

    def __init__(self):
        super().__init__()
        self.log = []
        self.failed = False
        self.state = self.new_state()

    def new_state(self):  # pragma: no cover
        raise NotImplementedError

    def apply(self, state, op):  # pragma: no cover
        raise NotImplementedError

    def finish(self, state, log, rec):
        pass

    def do(self, op):
        self.log.append(op)
        try:
            return type(self).apply(self.state, op)
        except BaseException as e:  # noqa: B902
            self.failed = True
            if self.fail_holder is not None:
                self.fail_holder["fail"] = (list(self.log), e)
            raise

    def teardown(self):
        if not self.failed and self.recorder is not None:
            self.finish(self.state, self.log, self.recorder)
