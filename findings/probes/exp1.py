import warnings, numpy as np
from datetime import datetime
from acnportal import acnsim
from acnportal.acnsim import *
from acnportal.algorithms import *
warnings.simplefilter("always")

print("=== C04: long schedule at last period")
class Scripted(BaseAlgorithm):
    def __init__(self, n): super().__init__(); self.max_recompute=1; self.n=n
    def schedule(self, active): 
        return {s.station_id: [8.0]*self.n for s in active} or {"A":[0.0]*self.n}
def mk(nolimit=True):
    net = ChargingNetwork()
    net.register_evse(EVSE("A", max_rate=32), 208, 0)
    net.register_evse(EVSE("B", max_rate=32), 208, 0)
    if not nolimit:
        net.add_constraint(Current(["A","B"]), 40, name="agg")
    return net
net = mk(False)
ev = EV(0, 3, 5.0, "A", "s1", Battery(50, 0, 7))
q = EventQueue([PluginEvent(0, ev)])
sim = Simulator(net, Scripted(3), q, datetime(2020,1,1), period=5, verbose=False)
try:
    sim.run(); print("ok", sim.pilot_signals)
except Exception as e:
    print("EXC", type(e).__name__, e)

print("=== C06: Interface on constraint-free network")
net = mk(True)
ev = EV(0, 3, 5.0, "A", "s1", Battery(50, 0, 7))
q = EventQueue([PluginEvent(0, ev)])
for alg in [UncontrolledCharging(), SortedSchedulingAlgo(first_come_first_served)]:
    sim = Simulator(mk(True), alg, EventQueue([PluginEvent(0, EV(0, 3, 5.0, "A", "s1", Battery(50, 0, 7)))]), datetime(2020,1,1), period=5, verbose=False)
    try:
        sim.run(); print("ok", type(alg).__name__, sim.charging_rates)
    except Exception as e:
        print("EXC", type(alg).__name__, type(e).__name__, e)
print("net.is_feasible no constraints:", mk(True).is_feasible(np.ones((2,3))*1000))

print("=== C06: linear conservative w/ mixed-sign")
net = ChargingNetwork()
net.register_evse(EVSE("A", max_rate=320), 208, 0)
net.register_evse(EVSE("B", max_rate=320), 208, 180)
net.add_constraint(Current({"A":1,"B":-1}), 10, name="c")
S = np.array([[100.],[100.]])
print("linear:", net.is_feasible(S, linear=True), "phase-aware:", net.is_feasible(S))
print("cc linear", net.constraint_current(S, linear=True), "cc", net.constraint_current(S))

print("=== C06: utils linear multi-period")
from acnportal.algorithms.utils import infrastructure_constraints_feasible
net = mk(False)
sim = Simulator(net, UncontrolledCharging(), EventQueue(), datetime(2020,1,1), verbose=False)
info = sim.scheduler.interface.infrastructure_info()
S = np.array([[15., 15.],[15., 15.]])
print("net linear", net.is_feasible(S, linear=True), "utils linear", infrastructure_constraints_feasible(S, info, linear=True))
print("net nonlin", net.is_feasible(S), "utils nonlin", infrastructure_constraints_feasible(S, info))
try:
    print("utils linear 1-D", infrastructure_constraints_feasible(np.array([15.,15.]), info, linear=True))
except Exception as e: print("EXC 1-D linear", type(e).__name__, e)
