import warnings, numpy as np, random, sys, cmath, math, collections
from datetime import datetime
from acnportal.acnsim import *
from acnportal.algorithms import *
warnings.simplefilter("error"); warnings.filterwarnings("ignore", category=DeprecationWarning)
SORTS=[first_come_first_served,last_come_first_served,earliest_deadline_first,least_laxity_first,largest_remaining_processing_time]
TOLA, TOLR = 1e-5, 1e-7
def feas(A, L, ph, r, guard=0.0):
    # returns margin: min over constraints of (L+tol) - |sum|
    m = math.inf
    for j in range(len(L)):
        z = sum(A[j][i]*r[i]*cmath.exp(1j*math.radians(ph[i])) for i in range(len(r)))
        m = min(m, L[j]+max(TOLA, TOLR*L[j]) - abs(z))
    return m
def rmax_cont(A,L,ph,r,i,lb,ub):
    hi=ub
    for j in range(len(L)):
        a=A[j][i]
        if a==0: continue
        c=sum(A[j][k]*r[k]*cmath.exp(1j*math.radians(ph[k])) for k in range(len(r)) if k!=i)
        u=a*cmath.exp(1j*math.radians(ph[i]))
        M=L[j]+max(TOLA,TOLR*L[j])
        b=(c.conjugate()*u).real
        disc=b*b-(a*a)*(abs(c)**2-M*M)
        if disc<0: hi=min(hi,-1); continue
        hi=min(hi,(-b+math.sqrt(disc))/(a*a))
    return hi
stats=collections.Counter()
def trial(seed):
    rng=random.Random(seed)
    nst=rng.randint(2,6); st=[f"S{i}" for i in range(nst)]
    period=rng.choice([1,5,15]); net=ChargingNetwork(); volts=[];ph=[];ev=[]
    for s in st:
        v=rng.choice([120,208,240,277]); p=rng.choice([0,0,30,-90,150,120,-120])
        e=EVSE(s,max_rate=rng.choice([16,32,40,80])) if rng.random()<0.5 else FiniteRatesEVSE(s,rng.choice([[0]+list(range(6,33)),[8,16,24,32],[6,12,48]]))
        net.register_evse(e,v,p); volts.append(v); ph.append(p); ev.append(e)
    A=[];L=[]
    for c in range(rng.randint(1,4)):
        sub=rng.sample(st,rng.randint(1,nst)); row=[0.0]*nst
        for s in sub: row[st.index(s)]=rng.choice([1,1,1,-1,0.5,-0.25])
        lim=rng.choice([4,7.5,10,20,33,50,100]); net.add_constraint(Current({s:row[st.index(s)] for s in sub}),lim,name=f"c{c}"); A.append(row);L.append(lim)
    # sessions: one per subset of stations, all active at t=now
    now=rng.randint(0,5)
    sess=[]; arr=rng.sample(range(0,now+1),min(now+1,nst)) if now+1>=nst else None
    chosen=rng.sample(st,rng.randint(1,nst))
    arrivals=rng.sample(range(-20,now+1),len(chosen)); deps=rng.sample(range(now+1,now+40),len(chosen))
    evs=[]
    for k,s in enumerate(chosen):
        req=rng.choice([0.05,0.3,1.0,3.0,12.0])*rng.uniform(0.8,1.2)
        evs.append(EV(max(arrivals[k],0) if False else arrivals[k],deps[k]+5,req,s,f"x{k}",Battery(100,0,50),estimated_departure=deps[k]))
    sort=rng.choice(SORTS)
    alg=SortedSchedulingAlgo(sort)
    sim=Simulator(net,alg,EventQueue(),datetime(2020,1,1),period=period,verbose=False)
    for e in evs: net.plugin(e)
    sim._iteration=now
    iface=alg.interface
    sessions=iface.active_sessions()
    out=alg.schedule(sessions)
    r_out=[out[s][0] for s in st]
    # oracle order
    def amp(e): return e.requested_energy*1000/volts[st.index(e.station_id)]*60/period
    def mx(e): return ev[st.index(e.station_id)].max_rate
    keyf={ 'first_come_first_served':lambda e:e.arrival,'last_come_first_served':lambda e:-e.arrival,'earliest_deadline_first':lambda e:e.estimated_departure,
      'least_laxity_first':lambda e:(e.estimated_departure-now)-amp(e)/mx(e),'largest_remaining_processing_time':lambda e:-amp(e)/mx(e)}[sort.__name__]
    ks=sorted(keyf(e) for e in evs)
    if any(abs(a-b)<1e-6 for a,b in zip(ks,ks[1:])): stats['tie-skip']+=1; return
    order=sorted(evs,key=keyf)
    r=[0.0]*nst
    assert feas(A,L,ph,r)>=0
    binding=False
    for e in order:
        i=st.index(e.station_id)
        e_min=ev[i].min_rate
        thr=e_min*volts[i]/(60/period)/1000
        if not e.requested_energy>thr: stats['removed']+=1; continue
        ub=min(mx(e),amp(e))
        if isinstance(ev[i],FiniteRatesEVSE):
            best=0.0; amb=False
            for a in ev[i].allowable_rates:
                if 0<=a<=ub:
                    r2=list(r); r2[i]=a; m=feas(A,L,ph,r2)
                    if abs(m)<1e-9: amb=True
                    if m>=0: best=max(best,a)
            if amb: stats['amb']+=1; return
            # note: algorithm walks down from the top and stops at first feasible => max feasible level
            assert abs(r_out[i]-best)<1e-9,(seed,sort.__name__,i,r_out,best,r)
            if best< max([a for a in ev[i].allowable_rates if a<=ub],default=0): binding=True
            r[i]=r_out[i]
        else:
            star=min(ub,rmax_cont(A,L,ph,r,i,0,ub))
            if star<ub-1e-12: binding=True
            assert star-0.01-1e-6<=r_out[i]<=star+1e-6,(seed,sort.__name__,i,r_out[i],star,ub)
            r[i]=r_out[i]
    for i,s in enumerate(st):
        if s not in [e.station_id for e in evs]: assert r_out[i]==0
    stats['binding' if binding else 'slack']+=1
for seed in range(int(sys.argv[1]),int(sys.argv[2])):
    trial(seed)
print(stats)
