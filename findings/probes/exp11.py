import warnings, numpy as np, random, math, json
from acnportal.acnsim import *
warnings.simplefilter("error"); warnings.filterwarnings("ignore", category=DeprecationWarning)
rng=random.Random(1)
# --- C14 two-stage vs own closed form + fine Euler
def law(cap, c0, pmax, ts, pilot, V, T):
    # independent: integrate in SoC with small steps (RK-free exact piecewise)
    s=c0/cap; r=min(pilot*V/1000, pmax)/cap  # soc per hour
    m=pmax/cap; hrs=T/60
    if r<=0: return c0
    sstar=1-(1-ts)*r/m
    if s<sstar:
        t1=(sstar-s)/r
        if t1>=hrs: return (s+r*hrs)*cap
        s=sstar; hrs-=t1
    # ds/dt = m*(1-s)/(1-ts)
    s=1-(1-s)*math.exp(-m*hrs/(1-ts))
    return s*cap
worst=0; n=0
for _ in range(20000):
    cap=rng.uniform(1,100); c0=rng.uniform(0,cap); pmax=rng.uniform(0.5,50); ts=rng.choice([0,0.3,0.8,0.95,rng.random()*0.999]); pilot=rng.choice([0,rng.uniform(0,80)]); V=rng.choice([120,208,240]); T=rng.choice([1,5,15,60,rng.uniform(0.1,120)])
    b=Linear2StageBattery(cap,c0,pmax,transition_soc=ts)
    rate=b.charge(pilot,V,T)
    exp=law(cap,c0,pmax,ts,pilot,V,T)
    err=abs(b._current_charge-exp)/cap; worst=max(worst,err)
    assert err<1e-9,(cap,c0,pmax,ts,pilot,V,T,b._current_charge,exp)
    assert -1e-9<=rate<=pilot+1e-9 and b._current_charge<=cap*(1+1e-12) and b.current_charging_power<=pmax*(1+1e-9)
    # T/2 twice
    b2=Linear2StageBattery(cap,c0,pmax,transition_soc=ts); b2.charge(pilot,V,T/2); b2.charge(pilot,V,T/2)
    assert abs(b2._current_charge-b._current_charge)<1e-9*cap,(cap,c0,pmax,ts,pilot,V,T,b2._current_charge,b._current_charge)
    n+=1
print("C14 ok",n,"worst rel err",worst)
# --- C13 boundary
def acc(evse,p):
    try: evse.set_pilot(p,208,5); return True
    except InvalidRateError: return False
cnt=0
for _ in range(5000):
    k=rng.random()
    if k<0.33:
        lo=rng.choice([0,0,2,6]); hi=lo+rng.choice([0,10,26]); e=EVSE("s",max_rate=hi,min_rate=lo); pred=lambda p:lo-1e-3<=p<=hi+1e-3; bounds=[lo,hi]
    elif k<0.66:
        de=rng.choice([6,4.5,8]); hi=de+rng.choice([0,10,26]); e=DeadbandEVSE("s",deadband_end=de,max_rate=hi); pred=lambda p:abs(p)<=1e-3 or de-1e-3<=p<=hi+1e-3; bounds=[0,de,hi]
    else:
        rates=[rng.choice([0,6,8,8,16,7.5,32]) for _ in range(rng.randint(1,5))]; e=FiniteRatesEVSE("s",rates); aset=set(rates)|{0}; pred=lambda p:any(abs(p-a)<=1e-3 for a in aset); bounds=sorted(aset)
        assert e.allowable_rates==sorted(aset)
    for b in bounds:
        for d in [-2e-3,-1.001e-3,-0.999e-3,-5e-4,0,5e-4,0.999e-3,1.001e-3,2e-3]:
            p=b+d; assert acc(e,p)==pred(p),(type(e).__name__,bounds,p); cnt+=1
    for a in list(e.allowable_pilot_signals)+[e.max_rate,e.min_rate]:
        assert acc(e,a),(type(e).__name__,a)
print("C13 ok",cnt)
