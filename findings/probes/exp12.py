import warnings, numpy as np, random, math, json
from datetime import datetime, timedelta, timezone
from fractions import Fraction
import pytz
from unittest import mock
from acnportal.acnsim import *
from acnportal.acnsim.events import acndata_events as ae
from acnportal.acnsim.events.stochastic_events import StochasticEvents
from acnportal.acnsim.models.battery import batt_cap_fn
from acnportal.acndata import DataClient
from acnportal.acndata.utils import http_date, parse_http_date, parse_dates
warnings.simplefilter("error"); warnings.filterwarnings("ignore", category=DeprecationWarning)
rng=random.Random(2)
tzs=["America/Los_Angeles","UTC","Europe/Berlin","Asia/Kolkata","Australia/Lord_Howe"]
def rdt(tz):
    epoch=rng.randint(1_500_000_000,1_700_000_000)
    return datetime.fromtimestamp(epoch, tz=timezone.utc).astimezone(pytz.timezone(tz)), epoch
n=0
for _ in range(5000):
    tz=rng.choice(tzs); c,ce=rdt(tz); dur=rng.choice([0,30,299,300,301,3600*5,86400*2]); d=c+timedelta(seconds=dur); de=ce+dur
    st,se=rdt(tz); se=ce-rng.randint(0,86400*3); st=datetime.fromtimestamp(se,tz=timezone.utc).astimezone(pytz.timezone(tz))
    period=rng.choice([1,5,10,15,60]); V=rng.choice([208,240]); pmax=rng.choice([3.3,6.6,7]); max_len=rng.choice([None,1,12,100]); ff=rng.random()<0.5
    kwh=rng.choice([0.1,3.0,14.2,80.0])
    doc=dict(connectionTime=c,disconnectTime=d,kWhDelivered=kwh,sessionID=f"id{_}",spaceID="CA-1")
    off=ae._datetime_to_timestamp(st,period)
    assert off==se//(60*period)
    use_fit = rng.random()<0.3 and (de//(60*period) - ce//(60*period))>=1 and (max_len is None or max_len>=1)
    bp = {"type":Linear2StageBattery,"capacity_fn":batt_cap_fn} if use_fit else None
    try:
        ev=ae._convert_to_ev(doc,off,period,V,pmax,max_len,bp,ff)
    except ValueError as e:
        assert use_fit and "No feasible battery" in str(e); continue
    ea=ce//(60*period)-off; ed=de//(60*period)-off
    if max_len is not None and ed-ea>max_len: ed=ea+max_len
    assert (ev.arrival,ev.departure)==(ea,ed),(ev.arrival,ev.departure,ea,ed)
    ereq=min(kwh,pmax*(ed-ea)*period/60) if ff else kwh
    assert abs(ev.requested_energy-ereq)<1e-12
    b=ev._battery
    if not b._capacity-b._current_charge>=ev.requested_energy-1e-9: print("FREECAP", use_fit, kwh, ereq, ed-ea, period, V, pmax, b._capacity, b._current_charge, ff)
    assert ev.session_id==doc["sessionID"] and ev.station_id=="CA-1"
    n+=1
print("C15 acndata ok",n)
# fit: all (energy, stay)
bad=0;tot=0;worst=0
for _ in range(3000):
    V=rng.choice([208,240]);P=rng.choice([1,5,15]); dur=rng.randint(1,200); maxE=32*V/1000*dur*P/60
    req=rng.uniform(0.001,1.0)*min(maxE,100)
    try: cap,init=batt_cap_fn(req,dur,V,P)
    except ValueError: bad+=1; continue
    assert 0<=init<=cap and cap-init>=req-1e-6,(req,dur,V,P,cap,init)
    b=Linear2StageBattery(cap,init,32*V/1000); rates=[b.charge(32,V,P) for _ in range(dur)]
    deliv=sum(rates)*V/1000*P/60; tot+=1; worst=max(worst,abs(deliv-req))
    assert abs(deliv-req)<1e-6,(req,dur,V,P,cap,init,deliv)
print("fit ok",tot,"infeasible",bad,"worst",worst)
# C20
def rfc(epoch): return datetime.fromtimestamp(epoch,tz=timezone.utc).strftime("%a, %d %b %Y %H:%M:%S GMT")
for _ in range(300):
    npages=rng.randint(1,5); pages=[]; allitems=[]
    for p in range(npages):
        items=[]
        for i in range(rng.choice([0,0,1,3])):
            tz=rng.choice(tzs); e=rng.randint(1_500_000_000,1_700_000_000)
            it={"_id":f"{p}-{i}","timezone":tz,"connectionTime":rfc(e),"disconnectTime":rfc(e+1000),"doneChargingTime":None,"kWhDelivered":1.5,"sessionID":f"s{p}-{i}","spaceID":"x","note":"hello",
                "chargingCurrent":{"current":[1,2],"timestamps":[rfc(e+1),rfc(e+2)]}}
            items.append(it); allitems.append((it["_id"],e,tz))
        links={"next":{"href":f"sessions/caltech?page={p+2}"}} if p<npages-1 else {"self":{}}
        pages.append({"_items":items,"_links":links})
    calls=[]
    def fake_get(url,auth=None):
        calls.append((url,auth)); r=mock.Mock(); r.json.return_value=pages[len(calls)-1]; return r
    with mock.patch("acnportal.acndata.data_client.requests.get",fake_get):
        c=DataClient("tok",url="http://x/api/")
        got=list(c.get_sessions("caltech",cond='a>1',sort="connectionTime"))
    assert [g["_id"] for g in got]==[a[0] for a in allitems]
    assert len(calls)==npages and calls[0][0]=="http://x/api/sessions/caltech?where=a>1&sort=connectionTime&max_results=100" and all(a==("tok","") for _,a in calls),calls[0]
    for g,(i,e,tz) in zip(got,allitems):
        assert g["connectionTime"].timestamp()==e and g["connectionTime"].utcoffset()==pytz.timezone(tz).utcoffset(g["connectionTime"].replace(tzinfo=None)) and g["note"]=="hello"
        assert [x.timestamp() for x in g["chargingCurrent"]["timestamps"]]==[e+1,e+2]
for _ in range(2000):
    tz=pytz.timezone(rng.choice(tzs)); e=rng.randint(0,2_000_000_000)
    dt=datetime.fromtimestamp(e,tz=timezone.utc).astimezone(tz)
    assert parse_http_date(http_date(dt),tz)==dt
print("C20 ok")
