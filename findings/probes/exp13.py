import warnings, numpy as np, random, sys
from datetime import datetime
from acnportal.acnsim import *
from acnportal.algorithms import *
warnings.simplefilter("error"); warnings.filterwarnings("ignore", category=DeprecationWarning)
SORTS=[first_come_first_served,last_come_first_served,earliest_deadline_first,least_laxity_first,largest_remaining_processing_time]
def build(spec, st_order, c_order, s_order, shift=0):
    net=ChargingNetwork()
    for s in st_order:
        k,v,p=spec['st'][s]
        net.register_evse(FiniteRatesEVSE(s,k),v,p)
    for c in c_order:
        cur,lim=spec['cons'][c]; net.add_constraint(Current({s:cur[s] for s in sorted(cur, key=lambda x: st_order.index(x))}),lim,name=c)
    evs=[]
    for i in s_order:
        a,d,req,s,ed,cap,pm=spec['sess'][i]
        evs.append(EV(a+shift,d+shift,req,s,f"sess{i}",Battery(cap,0,pm),estimated_departure=ed+shift))
    alg={'unc':UncontrolledCharging, 'g':lambda:SortedSchedulingAlgo(spec['sort']), 'rr':lambda:RoundRobin(spec['sort'])}[spec['alg']]()
    sim=Simulator(net,alg,EventQueue([PluginEvent(e.arrival,e) for e in evs]),datetime(2020,1,1),period=spec['period'],verbose=False)
    with warnings.catch_warnings():
        warnings.simplefilter("ignore")
        sim.run()
    return sim
def out(sim):
    ids=sim.network.station_ids
    return {s:(sim.pilot_signals[ids.index(s)].tolist(), sim.charging_rates[ids.index(s)].tolist()) for s in ids}, {k:v.energy_delivered for k,v in sim.ev_history.items()}
n=0
for seed in range(int(sys.argv[1]),int(sys.argv[2])):
    rng=random.Random(seed); nst=rng.randint(2,5); st=[f"S{i}" for i in range(nst)]
    spec=dict(st={s:(rng.choice([[8,16,24,32],[0]+list(range(6,33)),[6,12,48]]),rng.choice([120,208,240]),rng.choice([0,30,-90,150])) for s in st},cons={},sess=[],period=rng.choice([1,5]),alg=rng.choice(['unc','g','rr']),sort=rng.choice(SORTS))
    for c in range(rng.randint(1,3)):
        sub=rng.sample(st,rng.randint(1,nst)); spec['cons'][f"c{c}"]=({s:rng.choice([1,1,-1,0.5]) for s in sub},rng.choice([7.5,10,20,33,50]))
    arr=rng.sample(range(0,30),nst*2); dep=rng.sample(range(40,80),nst*2); k=0
    for s in st:
        t=0
        for j in range(rng.randint(0,2)):
            a=arr[k]; d=a+rng.randint(1,6); 
            # non-overlap: second session on same station must start after first ends -> simply one or two with sorted arrivals
            spec['sess'].append([a,d,rng.choice([0.5,2.0,9.0])*rng.uniform(0.9,1.1),s,dep[k],50,rng.choice([3.3,7,20])]); k+=1
        # fix overlap
    # remove overlaps per station
    by={}
    ok=[]
    for x in sorted(spec['sess'],key=lambda x:x[0]):
        if x[3] in by and x[0]<by[x[3]]: continue
        by[x[3]]=x[1]; ok.append(x)
    spec['sess']=ok
    if not ok: continue
    base=build(spec,st,list(spec['cons']),list(range(len(ok))))
    o0=out(base)
    p_st=st[:]; rng.shuffle(p_st); p_c=list(spec['cons']); rng.shuffle(p_c); p_s=list(range(len(ok))); rng.shuffle(p_s)
    o1=out(build(spec,p_st,p_c,p_s))
    assert o0[0]==o1[0] and o0[1]==o1[1],(seed,spec['alg'],spec['sort'].__name__,o0,o1)
    kshift=rng.randint(1,5)
    s2=build(spec,st,list(spec['cons']),list(range(len(ok))),shift=kshift)
    o2=out(s2)
    for s in st:
        assert o2[0][s][0][kshift:]==o0[0][s][0] and not any(o2[0][s][0][:kshift]),(seed,'shift pilots')
        assert o2[0][s][1][kshift:]==o0[0][s][1] and not any(o2[0][s][1][:kshift])
    assert o2[1]==o0[1]
    n+=1
print("C10 ok",n)
