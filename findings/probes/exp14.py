import json, os, warnings
from datetime import datetime, timedelta, date
from fractions import Fraction
from acnportal.signals.tariffs import TimeOfUseTariff
import acnportal.signals.tariffs.tou_tariff as tt
D=os.path.join(os.path.dirname(tt.__file__),"tariff_schedules")
def oracle(doc, dt):
    md=(dt.month,dt.day); wd=dt.weekday()
    hits=[]
    for s in doc["schedule"]:
        a=tuple(int(x) for x in s["effective_start"].split("-")); b=tuple(int(x) for x in s["effective_end"].split("-"))
        inseason = (a<=md<=b) if a<=b else (md>=a or md<=b)
        mask={"WEEKDAYS":wd<5,"WEEKENDS":wd>=5,"ALL":True}[s["dow_mask"]]
        if inseason and mask: hits.append(s)
    if len(hits)!=1: return ("ERR",len(hits))
    s=hits[0]; tod=Fraction(dt.hour)+Fraction(dt.minute,60)+Fraction(dt.second,3600)
    best=max((Fraction(str(t)),r) for t,r in zip(s["times"],s["tariffs"]) if Fraction(str(t))<=tod)
    return (best[1], s["demand_charge"])
years=[2018,2019,2020,2021,2022,2023,2024,2025,2026,2027,2028,2032,2036,2040,2044,2048]
cal=set()
tot=0
for f in sorted(os.listdir(D)):
    name=f[:-5]; doc=json.load(open(os.path.join(D,f))); t=TimeOfUseTariff(name)
    for y in years:
        d=datetime(y,1,1)
        key=(d.weekday(), (date(y,12,31)-date(y,1,1)).days); cal.add(key)
        while d.year==y:
            for h,m,s in [(0,0,0),(7,59,59),(8,0,0),(8,29,59),(8,30,0),(12,0,0),(15,59,59),(16,0,0),(21,0,0),(21,29,59),(21,30,0),(23,0,0),(23,59,59)]:
                dt=d.replace(hour=h,minute=m,second=s)
                exp=oracle(doc,dt)
                try: got=(t.get_tariff(dt), t.get_demand_charge(dt))
                except ValueError as e: got=("ERR",str(e)[:20])
                assert exp[0]!="ERR" and got==exp,(name,dt,got,exp)
                tot+=1
            d+=timedelta(days=1)
print("ok",tot,"calendar types",len(cal))
