import warnings, numpy as np, random
from datetime import datetime
from acnportal.acnsim import *
from acnportal.algorithms import *
warnings.simplefilter("ignore")
class Mut(BaseAlgorithm):
    def __init__(self, mutate): super().__init__(); self.max_recompute=1; self.mutate=mutate
    def schedule(self, active):
        i=self.interface; t=i.current_time
        out={s.station_id:[min(16.0, i.max_pilot_signal(s.station_id))] for s in active}
        if self.mutate:
            info=i.infrastructure_info()
            for s in active:
                s.energy_delivered=-5; s.requested_energy=0; s.station_id="ZZ"; s.departure=0; s.max_rates[:]=0
            info.constraint_matrix[:]=0; info.constraint_limits[:]=1e9; info.max_pilot[:]=0; info.voltages[:]=1; info.phases[:]=77; info.station_ids.reverse(); info.constraint_ids.clear()
            for a in info.allowable_pilots: a[:]=0
            info.is_continuous[:]=False
            for s2 in i.active_sessions(): s2.energy_delivered=99
            d=i.last_applied_pilot_signals; d.clear(); d2=i.last_actual_charging_rate; d2.clear()
            for ev in i.active_evs: ev._energy_delivered=1e6; ev._battery._current_charge=0; ev._station_id="Q"
            c,l=i.allowable_pilot_signals(i._simulator.network.station_ids[0]); l.clear()
        return out
def build(m):
    net=ChargingNetwork()
    net.register_evse(EVSE("A",max_rate=32),208,30); net.register_evse(FiniteRatesEVSE("B",[8,16,24]),240,-90); net.register_evse(DeadbandEVSE("C",max_rate=32),208,150)
    net.add_constraint(Current({"A":1,"B":-1}),30,name="x"); net.add_constraint(Current(["A","B","C"]),45,name="y")
    evs=[EV(0,5,3.0,"A","s1",Battery(10,0,7)),EV(1,6,2.0,"B","s2",Linear2StageBattery(10,8,7)),EV(2,4,1.0,"C","s3",Battery(10,0,7)),EV(5,8,1.0,"A","s4",Battery(10,0,7))]
    sim=Simulator(net,Mut(m),EventQueue([PluginEvent(e.arrival,e) for e in evs]),datetime(2020,1,1),period=5,verbose=False); sim.run(); return sim
a=build(False); b=build(True)
print(np.array_equal(a.pilot_signals,b.pilot_signals), np.array_equal(a.charging_rates,b.charging_rates), a.network.to_json()==b.network.to_json() or "netjson differs",
      [(x.energy_delivered) for x in a.ev_history.values()]==[(x.energy_delivered) for x in b.ev_history.values()])
print(b.network.constraint_matrix, b.network.magnitudes, b.network.max_pilot_signals, b.network.allowable_rates)
