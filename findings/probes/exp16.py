import warnings, numpy as np, random, sys, cmath, math, collections
from datetime import datetime
from acnportal.acnsim import *
from acnportal.algorithms import *
warnings.simplefilter("error"); warnings.filterwarnings("ignore", category=DeprecationWarning)
SORTS=[first_come_first_served,last_come_first_served,earliest_deadline_first,least_laxity_first,largest_remaining_processing_time]
stats=collections.Counter()
def margin(net, r):
    A=net.constraint_matrix; L=net.magnitudes; ph=net._phase_angles
    m=math.inf
    for j in range(len(L)):
        z=sum(A[j][i]*r[i]*cmath.exp(1j*math.radians(ph[i])) for i in range(len(r)))
        m=min(m, L[j]+max(1e-5,1e-7*L[j])-abs(z))
    return m
def trial(seed):
    rng=random.Random(seed)
    nst=rng.randint(2,6); st=[f"S{i}" for i in range(nst)]
    period=rng.choice([1,5,15]); net=ChargingNetwork(); volts=[];ev=[]
    for s in st:
        v=rng.choice([120,208,240,277]); p=rng.choice([0,0,30,-90,150,120,-120])
        e=EVSE(s,max_rate=rng.choice([16,32,40])) if rng.random()<0.5 else FiniteRatesEVSE(s,rng.choice([[0]+list(range(6,33)),[8,16,24,32],[6,12,48]]))
        net.register_evse(e,v,p); volts.append(v); ev.append(e)
    for c in range(rng.randint(1,4)):
        sub=rng.sample(st,rng.randint(1,nst))
        net.add_constraint(Current({s:rng.choice([1,1,1,-1,0.5,-0.25]) for s in sub}),rng.choice([4,7.5,10,20,33,50,100]),name=f"c{c}")
    now=rng.randint(0,5); chosen=rng.sample(st,rng.randint(1,nst))
    arrivals=rng.sample(range(-20,now+1),len(chosen)); deps=rng.sample(range(now+1,now+40),len(chosen)); evs=[]
    for k,s in enumerate(chosen):
        req=rng.choice([0.05,0.3,1.0,3.0,12.0])*rng.uniform(0.8,1.2)
        evs.append(EV(arrivals[k],deps[k]+5,req,s,f"x{k}",Battery(100,0,50),estimated_departure=deps[k]))
    sort=rng.choice(SORTS); inc=rng.choice([0.1,0.5,1,2.5])
    alg=RoundRobin(sort,continuous_inc=inc)
    sim=Simulator(net,alg,EventQueue(),datetime(2020,1,1),period=period,verbose=False)
    for e in evs: net.plugin(e)
    sim._iteration=now
    out=alg.schedule(alg.interface.active_sessions()); r_out=[out[s][0] for s in st]
    def amp(e): return e.requested_energy*1000/volts[st.index(e.station_id)]*60/period
    def mx(e): return ev[st.index(e.station_id)].max_rate
    keyf={ 'first_come_first_served':lambda e:e.arrival,'last_come_first_served':lambda e:-e.arrival,'earliest_deadline_first':lambda e:e.estimated_departure,
      'least_laxity_first':lambda e:(e.estimated_departure-now)-amp(e)/mx(e),'largest_remaining_processing_time':lambda e:-amp(e)/mx(e)}[sort.__name__]
    ks=sorted(keyf(e) for e in evs)
    if any(abs(a-b)<1e-6 for a,b in zip(ks,ks[1:])): stats['tie-skip']+=1; return
    order=[]
    levels={}
    for e in sorted(evs,key=keyf):
        i=st.index(e.station_id)
        thr=ev[i].min_rate*volts[i]/(60/period)/1000
        if not e.requested_energy>thr: continue
        ub=min(mx(e),amp(e))
        if isinstance(ev[i],FiniteRatesEVSE): lv=[a for a in ev[i].allowable_rates if 0<=a<=ub]
        else:
            n=int(math.floor(ub/inc+1e-9)); lv=[k*inc for k in range(n+1)]
        order.append(i); levels[i]=lv
    # final level index
    fin={}
    for i in order:
        lv=levels[i]
        if not lv: assert r_out[i]==0; fin[i]=0; levels[i]=[0.0]; continue
        idx=min(range(len(lv)),key=lambda k:abs(lv[k]-r_out[i])); assert abs(lv[idx]-r_out[i])<1e-6,(seed,i,r_out[i],lv[:5],inc); fin[i]=idx
    for i,s in enumerate(st):
        if i not in order: assert r_out[i]==0
    # reconstruct attempts
    blocked=False
    maxround=max(fin.values(),default=0)+1
    for k in range(1,maxround+1):
        for pos,i in enumerate(order):
            if fin[i]<k-1: continue     # already dropped earlier
            if k>len(levels[i])-1: continue  # at top: no attempt
            state=[0.0]*nst
            for pos2,j in enumerate(order):
                if j==i: state[j]=levels[j][k]
                elif pos2<pos: state[j]=levels[j][min(fin[j],k)]
                else: state[j]=levels[j][min(fin[j],k-1)]
            m=margin(net,state)
            if abs(m)<1e-9: stats['amb']+=1; return
            if fin[i]>=k: assert m>=0,(seed,'successful raise infeasible',i,k)
            else: assert m<0,(seed,'stopped though next level feasible',i,k,state,m); blocked=True
    stats['blocked' if blocked else 'unblocked']+=1
for seed in range(int(sys.argv[1]),int(sys.argv[2])): trial(seed)
print(stats)
