import warnings, numpy as np, random, cmath, math, json
from datetime import datetime, timedelta
from acnportal.acnsim import *
import acnportal.acnsim as acnsim
from acnportal.algorithms import *
from acnportal.signals.tariffs import TimeOfUseTariff
warnings.simplefilter("ignore")
rng=random.Random(5)
# C11
for trial in range(3000):
    q=EventQueue(); model=[]
    def key(e): return (e.timestamp,e.precedence)
    for step in range(rng.randint(1,25)):
        op=rng.random()
        if op<0.5:
            ts=rng.randint(-2,6); k=rng.random()
            ev=EV(0,1,1,"s",f"id{trial}-{step}",Battery(1,0,1))
            e=PluginEvent(ts,ev) if k<0.35 else UnplugEvent(ts,ev) if k<0.7 else RecomputeEvent(ts) if k<0.95 else Event(ts)
            if rng.random()<0.3: q.add_events([e])
            else: q.add_event(e)
            model.append(e)
        elif op<0.65 and model:
            e=q.get_event(); assert e in model and key(e)==min(key(x) for x in model); model.remove(e)
        elif op<0.85:
            t=rng.randint(-2,7); got=q.get_current_events(t)
            exp=[x for x in model if x.timestamp<=t]
            assert sorted(map(id,got))==sorted(map(id,exp)) and [key(x) for x in got]==sorted(key(x) for x in got)
            for x in got: model.remove(x)
        elif op<0.95:
            q2=EventQueue.from_json(q.to_json())
            assert sorted((e.timestamp,e.event_type,getattr(e,'session_id',None)) for _,e in q2._queue)==sorted((e.timestamp,e.event_type,getattr(e,'session_id',None)) for e in model)
            # continue on restored: map
            while not q2.empty():
                a=q2.get_event(); b=q.get_event(); assert key(a)==key(b); model.remove(b)
        assert len(q)==len(model) and q.empty()==(not model) and q.get_last_timestamp()==(max(x.timestamp for x in model) if model else None)
print("C11 ok")
# C18
for trial in range(300):
    net=ChargingNetwork(); st=["b","a","c","d"]; V={s:rng.choice([120,208,240]) for s in st}; P={s:rng.choice([30,-90,150]) for s in st}
    for s in st: net.register_evse(EVSE(s,max_rate=32),V[s],P[s])
    names=["pa","pb","pc","agg"]; coef={}
    for n in names:
        sub=rng.sample(st,rng.randint(1,4)); coef[n]={s:rng.choice([1,-1,0.5]) for s in sub}; net.add_constraint(Current(coef[n]),1000,name=n)
    evs=[EV(rng.randint(0,3),rng.randint(4,9),rng.choice([0.2,1,5]),s,f"e{s}",Battery(20,0,rng.choice([3,7]))) for s in st]
    period=rng.choice([1,5,15])
    sim=Simulator(net,UncontrolledCharging(),EventQueue([PluginEvent(e.arrival,e) for e in evs]),datetime(2021,2,3,4,5),period=period,verbose=False,signals={"tariff":TimeOfUseTariff("sce_tou_ev_4_march_2019")}); sim.run()
    R=sim.charging_rates; ids=net.station_ids
    assert np.allclose(acnsim.aggregate_current(sim),[sum(R[i,t] for i in range(4)) for t in range(R.shape[1])])
    assert np.allclose(acnsim.aggregate_power(sim),[sum(R[i,t]*V[ids[i]] for i in range(4))/1000 for t in range(R.shape[1])])
    req=rng.sample(names,rng.randint(1,4))
    for flag in (False,True):
        cc=acnsim.constraint_currents(sim,return_magnitudes=flag,constraint_ids=req)
        assert set(cc)==set(req)
        for n in req:
            exp=[abs(sum(coef[n].get(ids[i],0)*R[i,t]*cmath.exp(1j*math.radians(P[ids[i]])) for i in range(4))) for t in range(R.shape[1])]
            assert np.allclose(np.abs(cc[n]),exp),(n,cc[n],exp)
    ph=rng.sample(names,3)
    with np.errstate(all='ignore'): ub=acnsim.current_unbalance(sim,ph)
    for t in range(R.shape[1]):
        mags=[abs(sum(coef[n].get(ids[i],0)*R[i,t]*cmath.exp(1j*math.radians(P[ids[i]])) for i in range(4))) for n in ph]
        if sum(mags)>1e-9: assert abs(ub[t]-(max(mags)-sum(mags)/3)/(sum(mags)/3))<1e-9
    td=sum(e.energy_delivered for e in evs); tr=sum(e.requested_energy for e in evs)
    assert abs(acnsim.total_energy_delivered(sim)-td)<1e-12 and abs(acnsim.total_energy_requested(sim)-tr)<1e-12 and abs(acnsim.proportion_of_energy_delivered(sim)-td/tr)<1e-12
    th=rng.choice([0.1,0.5,1e-3]); assert acnsim.proportion_of_demands_met(sim,th)==sum(1 for e in evs if e.requested_energy-e.energy_delivered<th)/len(evs)
    da=acnsim.datetimes_array(sim); assert len(da)==sim.iteration and all(da[i]==np.datetime64(datetime(2021,2,3,4,5)+timedelta(minutes=period*i)) for i in range(len(da)))
    tar=sim.signals["tariff"]; ap=acnsim.aggregate_power(sim)
    assert abs(acnsim.energy_cost(sim)-sum(tar.get_tariff(sim.start+timedelta(minutes=period*t))*ap[t]*period/60 for t in range(len(ap))))<1e-9
    assert abs(acnsim.demand_charge(sim)-tar.get_demand_charge(sim.start)*max(ap))<1e-9
    assert abs(td-sum(ap)*period/60)<1e-9
print("C18 ok")
