import warnings, numpy as np, importlib, sys, types, re, math
warnings.simplefilter("ignore")
import acnportal.acnsim
cal=sys.modules['acnportal.acnsim.network.sites.caltech_acn']; jpl=sys.modules['acnportal.acnsim.network.sites.jpl_acn']; off=sys.modules['acnportal.acnsim.network.sites.office001_acn']
import inspect
rng=np.random.default_rng(0)
def frontier(net, members, rng, tries):
    ids=net.station_ids; n=len(ids); idx=[ids.index(m) for m in members]
    best=0; bestS=None
    for it in range(tries):
        w=np.zeros(n)
        kind=it%4
        if kind==0: w[idx]=rng.random(len(idx))
        elif kind==1: w[idx]=(rng.random(len(idx))<rng.random()).astype(float)
        elif kind==2: w[idx]=1.0
        else:
            # one phase heavy
            ang=np.array([net._phase_angles[i] for i in idx]); fav=rng.choice([30,-90,150]); w[idx]=np.where(ang==fav,1.0,rng.random()*0.5)
        S=w*32
        lo,hi=0.0,1.0
        if net.is_feasible(S.reshape(-1,1)): lo=1.0
        else:
            for _ in range(30):
                mid=(lo+hi)/2
                if net.is_feasible((S*mid).reshape(-1,1)): lo=mid
                else: hi=mid
        S=S*lo
        # coordinate ascent
        order=rng.permutation(idx)
        for rep in range(2):
            for i in order:
                a,b=S[i],32.0
                T=S.copy(); T[i]=b
                if net.is_feasible(T.reshape(-1,1)): S=T; continue
                for _ in range(12):
                    m=(a+b)/2; T[i]=m
                    if net.is_feasible(T.reshape(-1,1)): a=m
                    else: b=m
                S[i]=a
        assert net.is_feasible(S.reshape(-1,1))
        tot=S[idx].sum()
        if tot>best: best=tot; bestS=S.copy()
    return best,bestS
def power_ratio(net, members, cap, tries=24):
    tot,S=frontier(net,members,rng,tries)
    return 120*math.sqrt(3)*tot/1000/cap
def mutated(mod, fname, pat, rep):
    src=inspect.getsource(mod); assert re.search(pat,src), pat
    src2=re.sub(pat,rep,src,count=1)
    m=types.ModuleType("mut"); m.__package__=mod.__package__; exec(compile(src2,"mut","exec"),m.__dict__); return getattr(m,fname)
print("caltech real", power_ratio(cal.caltech_acn(basic_evse=True), cal.caltech_acn().station_ids,150))
for name,pat,rep in [("CA angle -150", r"voltage, 150\)", "voltage, -150)"),("I3a=AB+CA", r"I3a = AB - CA", "I3a = AB + CA"),("sec /208", r"transformer_cap \* 1000 / 3 / 120", "transformer_cap * 1000 / 3 / 208 * 1.9"),
                     ("BC angle 90", r"voltage, -90\)", "voltage, 90)"),("move station group", r'\[304, 512,', '[512,'),("I3b=BC-CA", r"I3b = BC - AB","I3b = BC - CA")]:
    f=mutated(cal,"caltech_acn",pat,rep); net=f(basic_evse=True)
    print("caltech",name, round(power_ratio(net,net.station_ids,150),4))
net=off.office001_acn(basic_evse=True); print("office real", power_ratio(net,net.station_ids,50))
for name,pat,rep in [("CA angle -150", r"voltage, 150\)", "voltage, -150)"),("I3c=CA+BC", r"I3c = CA - BC", "I3c = CA + BC")]:
    f=mutated(off,"office001_acn",pat,rep); net=f(basic_evse=True); print("office",name, round(power_ratio(net,net.station_ids,50),4))
net=jpl.jpl_acn(basic_evse=True); ids=net.station_ids
T1=[i for i in ids if "-1F" in i]; T34=[i for i in ids if "-1F" not in i]
print("jpl real", power_ratio(net,T1,45), power_ratio(net,T34,150))
for name,pat,rep in [("phi_ca -150", r"phi_ca=150", "phi_ca=-150"),('a=ab+ca', r'currents\["ab"\] - currents\["ca"\]', 'currents["ab"] + currents["ca"]'),("sec limit x sqrt3", r"secondary_side_constr = cap \* 1000 / 3 / secondary_voltage", "secondary_side_constr = cap * 1000 / 3 / secondary_voltage * np.sqrt(3)")]:
    f=mutated(jpl,"jpl_acn",pat,rep); net=f(basic_evse=True); print("jpl",name, round(power_ratio(net,T1,45),4), round(power_ratio(net,T34,150),4))
print("---- office with cap=20, caltech cap=60")
net=off.office001_acn(basic_evse=True, transformer_cap=20); print("office real", power_ratio(net,net.station_ids,20))
for name,pat,rep in [("CA angle -150", r"voltage, 150\)", "voltage, -150)"),("I3c=CA+BC", r"I3c = CA - BC", "I3c = CA + BC"),("AB angle 0", r"voltage, 30\)", "voltage, 0)"),("sec /277", r"transformer_cap \* 1000 / 3 / 120","transformer_cap * 1000 / 3 / 100"),("prim 1/8", r"I2a = \(1 / 4\)", "I2a = (1 / 8)")]:
    f=mutated(off,"office001_acn",pat,rep); net=f(basic_evse=True, transformer_cap=20); print("office",name, round(power_ratio(net,net.station_ids,20),4))
net=cal.caltech_acn(basic_evse=False, transformer_cap=60); print("caltech real cap60", power_ratio(net,net.station_ids,60))
f=mutated(cal,"caltech_acn",r'\[304, 512,', '[512, 308,'); 
try:
    net=f(basic_evse=True); print("dup station", len(net.station_ids))
except Exception as e: print("dup exc", e)
