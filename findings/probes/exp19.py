import os, time, json, warnings
import hypothesis
from hypothesis import given, settings, strategies as st, seed, Phase, HealthCheck, target
from hypothesis.stateful import RuleBasedStateMachine, rule, invariant, precondition, run_state_machine_as_test
warnings.simplefilter("ignore")
from acnportal.acnsim import *
SEED=int(os.environ.get("VERIF_SEED","1"))
seen=[]
class M(RuleBasedStateMachine):
    def __init__(self): super().__init__(); self.q=EventQueue(); self.model=[]; self.log=[]
    @rule(ts=st.integers(-3,8), k=st.sampled_from(["P","U","R"]))
    def add(self, ts, k):
        e=RecomputeEvent(ts) if k=="R" else (PluginEvent if k=="P" else UnplugEvent)(ts, EV(0,1,1,"s",f"x{len(self.log)}",Battery(1,0,1)))
        self.q.add_event(e); self.model.append(e); self.log.append(["add",ts,k])
    @precondition(lambda self: len(self.model)>0)
    @rule()
    def pop(self):
        e=self.q.get_event(); assert (e.timestamp,e.precedence)==min((x.timestamp,x.precedence) for x in self.model); self.model.remove(e); self.log.append(["pop"])
    @invariant()
    def inv(self): assert len(self.q)==len(self.model)
    def teardown(self): seen.append(len(self.log))
t=time.time()
run_state_machine_as_test(seed(SEED)(M), settings=settings(max_examples=300, stateful_step_count=30, deadline=None, database=None))
print("stateful 300 machines", round(time.time()-t,2),"s; steps total",sum(seen), "first lens", seen[:8])
cnt=[0]
@seed(SEED)
@settings(max_examples=2000, deadline=None, database=None, report_multiple_bugs=False, suppress_health_check=list(HealthCheck))
@given(st.fixed_dictionaries({"cap":st.floats(0.5,200),"frac":st.floats(0,1),"pilots":st.lists(st.one_of(st.just(0.0),st.floats(1e-9,80)),min_size=1,max_size=30)}))
def t2(spec):
    b=Linear2StageBattery(spec["cap"],spec["cap"]*spec["frac"],7)
    for p in spec["pilots"]:
        r=b.charge(p,208,5); assert -1e-8<=r<=p+1e-8
    cnt[0]+=1
t=time.time(); t2(); print("given 2000", round(time.time()-t,2),"s", cnt[0])
