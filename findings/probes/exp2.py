import warnings, numpy as np
from datetime import datetime
from acnportal import acnsim
from acnportal.acnsim import *
from acnportal.algorithms import *
from acnportal.acnsim.models.battery import batt_cap_fn
warnings.simplefilter("ignore")

print("=== C03: continuous noise")
np.random.seed(0)
b = Linear2StageBattery(50, 49.9, 7, noise_level=2.0)
mn = 1e9
for i in range(50):
    c0 = b._current_charge
    r = b.charge(1.0, 208, 5)
    mn = min(mn, r)
    if r < 0 or b._current_charge < c0 or r > 1.0:
        print("violation: rate", r, "charge", c0, "->", b._current_charge); break
np.random.seed(1)
b = Linear2StageBattery(50, 10, 7, noise_level=0.5)
r = [b.charge(0.5, 208, 5) for _ in range(20)]
print("small pilot rates min", min(r), "max", max(r))
# stepwise
np.random.seed(1)
b = Linear2StageBattery(50, 10, 7, noise_level=0.5, charge_calculation="stepwise")
r = [b.charge(0.5, 208, 5) for _ in range(200)]
print("stepwise small pilot rates min", min(r), "max", max(r))
b = Linear2StageBattery(50, 45, 7, noise_level=0.5, charge_calculation="stepwise")
r = [b.charge(16, 208, 5) for _ in range(200)]
print("stepwise tail rates min", min(r), "max", max(r), b._current_charge)

print("=== C15: batt_cap_fn small request")
for req, dur in [(1.0, 48), (0.5, 100), (3.0, 24), (6.0,12), (6.656*0.9, 12)]:
    V, P = 208, 5
    try:
        cap, init = batt_cap_fn(req, dur, V, P)
    except Exception as e:
        print(req, dur, "EXC", type(e).__name__, e); continue
    batt = Linear2StageBattery(cap, init, 32*V/1000)
    rates = [batt.charge(32, V, P) for _ in range(dur)]
    deliv = sum(rates)*V/1000*P/60
    print(f"req={req} dur={dur} cap={cap} init={init:.4f} delivered={deliv:.4f}")

print("=== C12: Current algebra")
a = Current(["A"]); b = Current(["B"])
m = 0.25*b
print("type(0.25*Current):", type(m).__name__)
print("a + 0.25*b ->", repr(a + m))
x = m + a
print("0.25*b + a ->", type(x).__name__, dict(x))
print("a - 0.25*b ->", dict(a - m))
net = ChargingNetwork()
for s in "ABC": net.register_evse(EVSE(s, max_rate=32), 208, 0)
net.add_constraint(Current(["A","B","C"]), 50, name="first")
try:
    net.add_constraint(x, 10, name="bad"); print(net.constraints_as_df())
except Exception as e: print("EXC", type(e).__name__, e)
# first constraint with subset columns
net = ChargingNetwork()
for s in "ABC": net.register_evse(EVSE(s, max_rate=32), 208, 0)
net.add_constraint(Current({"C":2.0}), 50, name="first")
print(net.constraints_as_df(), net.constraint_matrix)
net.add_constraint(Current({"B":1.0, "A":-1}), 5)
net.add_constraint(Current({"A":3}), 7)
print(net.constraints_as_df(), net.magnitudes, net.constraint_index)
net.remove_constraint("first"); net.add_constraint(Current({"A":3}), 7)
print(net.constraints_as_df(), net.magnitudes, net.constraint_index)
