import warnings, numpy as np, random, sys
from datetime import datetime
from acnportal.acnsim import *
from acnportal.algorithms import *
warnings.simplefilter("ignore")
class Boom(Exception): pass
class Scripted(BaseAlgorithm):
    def __init__(self, crash_t, mr, lens): super().__init__(); self.max_recompute=mr; self.crash_t=crash_t; self.calls=[]; self.lens=lens
    def schedule(self, active):
        t=self.interface.current_time
        if self.crash_t==t: self.crash_t=None; raise Boom()
        self.calls.append(t)
        L=self.lens[t%len(self.lens)]
        return {"A":[((t+k)%4)*8.0 for k in range(L)],"B":[8.0+((t+k)%3) for k in range(L)]}
def build(spec, crash):
    rng=random.Random(spec)
    net=ChargingNetwork(); net.register_evse(EVSE("A",max_rate=32),208,0); net.register_evse(FiniteRatesEVSE("B",[8,9,10,16]),240,0); net.register_evse(DeadbandEVSE("C",max_rate=32),208,0)
    if rng.random()<0.7: net.add_constraint(Current(["A","B"]),60,name="agg")
    evs=[]; 
    for s in "ABC":
        t=rng.randint(0,2)
        for _ in range(rng.randint(0,2)):
            a=t+rng.randint(0,2); d=a+rng.randint(1,4)
            b=Battery(50,0,rng.choice([3,7])) if rng.random()<0.5 else Linear2StageBattery(10,rng.choice([0,8.5]),7,charge_calculation=rng.choice(["continuous","stepwise"]))
            evs.append(EV(a,d,rng.choice([0.3,3.0]),s,f"s{len(evs)}",b)); t=d
    q=EventQueue([PluginEvent(e.arrival,e) for e in evs])
    for _ in range(rng.randint(0,2)): q.add_event(RecomputeEvent(rng.randint(0,10)))
    mr=rng.choice([None,1,2,3]); lens=[rng.randint(1,3) for _ in range(3)]
    return Simulator(net,Scripted(crash,mr,lens),q,datetime(2020,1,1),period=5,verbose=False,store_schedule_history=rng.random()<0.5), mr, lens
n=0
for spec in range(int(sys.argv[1]),int(sys.argv[2])):
    ref,mr,lens=build(spec,None)
    if ref.event_queue.empty(): continue
    ref.run()
    for ct in ref.scheduler.calls:
        for js in (False,True):
            s,_,_=build(spec,ct)
            try: s.run(); raise AssertionError("no crash")
            except Boom: pass
            if js:
                s2=Simulator.from_json(s.to_json()); s2.update_scheduler(Scripted(None,mr,lens))
                for st in s2.network.station_ids:
                    ev=s2.network.get_ev(st)
                    if ev is not None:
                        assert ev is s2.ev_history[ev.session_id]
                        unp=[e for _,e in s2.event_queue._queue if e.event_type=="Unplug" and e.ev.session_id==ev.session_id]; assert len(unp)==1 and unp[0].ev is ev
                s=s2
            s.run()
            assert np.array_equal(s.pilot_signals,ref.pilot_signals),(spec,ct,js,"pilots")
            assert np.array_equal(s.charging_rates,ref.charging_rates),(spec,ct,js,"rates")
            assert {k:v.energy_delivered for k,v in s.ev_history.items()}=={k:v.energy_delivered for k,v in ref.ev_history.items()}
            assert [(e.event_type,e.timestamp) for e in s.event_history]==[(e.event_type,e.timestamp) for e in ref.event_history]
            assert s.iteration==ref.iteration and s.peak==ref.peak and s.schedule_history==ref.schedule_history,(spec,ct,js,"misc")
            n+=1
print("C09 ok",n)
