import warnings, numpy as np, random, sys, cmath, math, collections
from datetime import datetime
from acnportal.acnsim import *
from acnportal.algorithms import *
from acnportal.algorithms.utils import infrastructure_constraints_feasible as icf
warnings.simplefilter("ignore")
stats=collections.Counter()
def margins(A,L,ph,S,atol,rtol,linear):
    out=[]
    for j in range(len(L)):
        for t in range(len(S[0])):
            if linear: z=abs(math.fsum(abs(A[j][i])*S[i][t] for i in range(len(S))))
            else:
                re=math.fsum(A[j][i]*S[i][t]*math.cos(math.radians(ph[i])) for i in range(len(S))); im=math.fsum(A[j][i]*S[i][t]*math.sin(math.radians(ph[i])) for i in range(len(S))); z=math.hypot(re,im)
            out.append(L[j]+max(atol,rtol*L[j])-z)
    return min(out)
for seed in range(int(sys.argv[1]),int(sys.argv[2])):
    rng=random.Random(seed); n=rng.randint(1,6); st=[f"s{rng.randint(0,999)}_{i}" for i in range(n)]; m=rng.randint(1,5); T=rng.randint(1,4)
    atol=rng.choice([1e-5,1e-5,0,1e-3,0.5]); rtol=rng.choice([1e-7,1e-7,0,1e-3])
    net=ChargingNetwork(violation_tolerance=atol,relative_tolerance=rtol); ph=[]
    for s in st: p=rng.choice([0,30,-90,150,120,-120,180,rng.uniform(-180,180)]); ph.append(p); net.register_evse(EVSE(s,max_rate=1e9),208,p)
    A=[];L=[]
    for j in range(m):
        row=[rng.choice([1,-1,0.5,-0.25,0,rng.uniform(-2,2)]) for _ in st]
        if not any(row): row[rng.randrange(n)]=1.0
        lim=rng.choice([5,32,80,rng.uniform(0.5,500)]); A.append(row);L.append(lim)
        net.add_constraint(Current({s:row[i] for i,s in enumerate(st) if row[i]!=0}),lim,name=f"c{j}")
    linear=rng.random()<0.3
    # boundary aimed
    d=[[rng.choice([0,rng.random()]) for _ in range(T)] for _ in st]
    j=rng.randrange(m); t=rng.randrange(T)
    def agg(j,t,S):
        if linear: return abs(sum(abs(A[j][i])*S[i][t] for i in range(n)))
        return abs(sum(A[j][i]*S[i][t]*cmath.exp(1j*math.radians(ph[i])) for i in range(n)))
    a=agg(j,t,d)
    tol=max(atol,rtol*L[j]); delta=rng.choice([3,0.5,0.01,-0.01,-0.5,-3])*max(tol,1e-6)
    if a>1e-6:
        sc=(L[j]+tol+delta)/a
        # scale whole matrix so that (j,t) sits at target, others may exceed -> shrink other columns
        S=[[d[i][tt]*sc*(1 if tt==t else 0.2) for tt in range(T)] for i in range(n)]
    else: S=[[x*10 for x in r] for r in d]
    mg=margins(A,L,ph,S,atol,rtol,linear)
    g=1e-9*(1+max(L))
    if abs(mg)<g: stats['amb']+=1; continue
    exp=mg>0
    M=np.array(S)
    sim=Simulator(net,UncontrolledCharging(),EventQueue(),datetime(2020,1,1),verbose=False); iface=sim.scheduler.interface
    sched={s:S[i] for i,s in enumerate(st) if any(S[i]) or rng.random()<0.5}
    if not sched: sched={st[0]:S[0]}
    items=list(sched.items()); rng.shuffle(items); sched=dict(items)
    got=(bool(net.is_feasible(M,linear=linear)), bool(iface.is_feasible(sched,linear=linear)), bool(icf(M,iface.infrastructure_info(),linear,atol,rtol)))
    assert got==(exp,exp,exp),(seed,linear,got,exp,mg,atol,rtol)
    if T==1: assert bool(icf(M[:,0],iface.infrastructure_info(),linear,atol,rtol))==exp
    if linear and exp: assert margins(A,L,ph,S,atol,rtol,False)>-g and net.is_feasible(M)
    stats['near' if abs(delta)<=3*max(tol,1e-6) else 'far']+=1; stats['feas' if exp else 'infeas']+=1; stats['linear' if linear else 'phasor']+=1
print(stats)
