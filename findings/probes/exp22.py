import warnings, numpy as np, random, sys, cmath, math, collections
import pandas as pd
from fractions import Fraction as F
from acnportal.acnsim import *
from acnportal.acnsim.network.charging_network import EVSERegistrationError
warnings.simplefilter("ignore")
stats=collections.Counter()
def gen_expr(rng, st, depth):
    if depth==0 or rng.random()<0.3:
        k=rng.random(); sub=rng.sample(st,rng.randint(1,len(st)))
        if k<0.4:
            d={s:rng.choice([1,-1,2,0.5,-0.25,3]) for s in sub}; return Current(d), {s:F(str(v)) for s,v in d.items()}
        if k<0.55: return Current(sub[0]), {sub[0]:F(1)}
        if k<0.8: return Current(sub), {s:F(1) for s in sub}
        d={s:rng.choice([1,-1,2,0.5]) for s in sub}; return Current(pd.Series(d)), {s:F(str(v)) for s,v in d.items()}
    op=rng.choice(["add","sub","lmul","rmul"])
    a,ma=gen_expr(rng,st,depth-1)
    if op in("add","sub"):
        b,mb=gen_expr(rng,st,depth-1); keys=set(ma)|set(mb)
        if op=="add": return a+b, {k:ma.get(k,0)+mb.get(k,0) for k in keys}
        return a-b, {k:ma.get(k,0)-mb.get(k,0) for k in keys}
    c=rng.choice([2,0.5,0.25,-1,3,1/4])
    stats['mul']+=1
    return (c*a if op=="lmul" else a*c), {k:v*F(c) for k,v in ma.items()}
def check(net, model, st):
    df=net.constraints_as_df() if net.constraint_matrix is not None else None
    if net.constraint_matrix is None: assert not model; return
    assert list(df.index)==[m[0] for m in model]==net.constraint_index and list(df.columns)==st, (list(df.index),[m[0] for m in model])
    assert np.allclose(net.magnitudes,[m[1] for m in model]) and len(net.magnitudes)==len(model)
    M=net.constraint_matrix; assert M.shape==(len(model),len(st)) and not np.isnan(np.asarray(M,dtype=float)).any()
    for i,(nm,lim,co) in enumerate(model):
        for j,s in enumerate(st): assert abs(float(M[i,j])-float(co.get(s,0)))<1e-12,(nm,s,M[i,j],co)
for seed in range(int(sys.argv[1]),int(sys.argv[2])):
    rng=random.Random(seed); n=rng.randint(1,5); st=[f"{rng.choice('zyxab')}{i}" for i in range(n)]
    net=ChargingNetwork(); ph=[]
    for s in st: p=rng.choice([0,30,-90,150]); ph.append(p); net.register_evse(EVSE(s,max_rate=32),208,p)
    model=[]; cnt=0
    for step in range(rng.randint(1,12)):
        op=rng.random()
        if op<0.5:
            e,m=gen_expr(rng,st,rng.randint(0,3)); lim=rng.choice([5,10.5,80]); nm=f"n{cnt}"; cnt+=1
            net.add_constraint(e,lim,name=nm); model.append((nm,lim,m)); stats['add']+=1
        elif op<0.65 and model:
            k=rng.randrange(len(model)); net.remove_constraint(model[k][0]); model.pop(k); stats['remove']+=1
        elif op<0.8 and model:
            k=rng.randrange(len(model)); e,m=gen_expr(rng,st,rng.randint(0,2)); lim=rng.choice([7,99]); newn=rng.choice([None,f"n{cnt}"]); cnt+=1
            net.update_constraint(model[k][0],e,lim,new_name=newn); old=model.pop(k); model.append((newn or old[0],lim,m)); stats['update']+=1
        elif op<0.88:
            try: net.remove_constraint("nope"); assert False
            except KeyError: pass
        elif op<0.94 and net.constraint_matrix is not None:
            try: net.register_evse(EVSE("late"),208,0); assert False
            except EVSERegistrationError: pass
            assert net.station_ids==st
        elif model:
            T=rng.randint(1,3); S=np.array([[rng.choice([0,6,16.5]) for _ in range(T)] for _ in st]); sub=rng.sample([m[0] for m in model],rng.randint(1,len(model))); ti=rng.sample(range(T),rng.randint(1,T))
            got=net.constraint_current(S,constraints=sub,time_indices=ti)
            rows=[m for m in model if m[0] in sub]
            exp=np.array([[sum(float(m[2].get(s,0))*S[i,t]*cmath.exp(1j*math.radians(ph[i])) for i,s in enumerate(st)) for t in ti] for m in rows])
            assert got.shape==exp.shape and np.allclose(got,exp),(got,exp); stats['query']+=1
        check(net,model,st)
print(stats)
