import warnings, numpy as np, random, sys, collections
from datetime import datetime
from unittest import mock
from acnportal.acnsim import *
from acnportal.algorithms import *
from acnportal.contrib.acnsim import StochasticNetwork
warnings.simplefilter("ignore")
stats=collections.Counter()
class Net(StochasticNetwork):
    def __init__(self,*a,**k): super().__init__(*a,**k); self.trace=[]
    def post_charging_update(self):
        before={s:(e.ev.session_id if e.ev else None) for s,e in self._EVSEs.items()}; full=[e.ev.session_id for e in self._EVSEs.values() if e.ev is not None and e.ev.fully_charged]
        wq_before=list(self.waiting_queue.keys())
        super().post_charging_update()
        occ={s:(e.ev.session_id if e.ev else None) for s,e in self._EVSEs.items()}
        self.trace.append((before,wq_before,full,occ,list(self.waiting_queue.keys())))
def trial(seed):
    rng=random.Random(seed); nst=rng.randint(1,3); st=[f"S{i}" for i in range(nst)]; early=rng.random()<0.5
    net=Net(early_departure=early)
    for s in st: net.register_evse(EVSE(s,max_rate=32),208,0)
    net.add_constraint(Current(st),32*nst,name="agg")
    evs=[]
    for i in range(rng.randint(2,10)):
        a=rng.randint(0,5); d=a+rng.randint(1,6); evs.append(EV(a,d,rng.choice([0.3,1.0,30.0]),None,f"e{i}",Battery(100,0,7)))
    choices=[rng.randrange(100) for _ in range(50)]; picks=[]
    def fake_choice(seq): k=choices[len(picks)%50]%len(seq); picks.append(seq[k]); return seq[k]
    sim=Simulator(net,UncontrolledCharging(),EventQueue([PluginEvent(e.arrival,e) for e in evs]),datetime(2020,1,1),period=5,verbose=False)
    with mock.patch("random.choice",fake_choice): sim.run()
    # model replay in event_history order
    occ={s:None for s in st}; wq=[]; never=0; swaps=0; earlyc=0; gone=set(); pi=0; admitted_from_q=[]
    by_t=collections.defaultdict(list)
    for e in sim.event_history: by_t[e.timestamp].append(e)
    byid={e.session_id:e for e in evs}
    for t in range(sim.iteration):
        for e in by_t.get(t,[]):
            sid=e.ev.session_id
            if e.event_type=="Plugin":
                free=[s for s in st if occ[s] is None]
                if free:
                    ch=picks[pi]; pi+=1; assert ch in free,(seed,"chose occupied"); occ[ch]=sid
                    assert not wq,(seed,"free station while queue non-empty")
                else: wq.append(sid)
            else:
                if sid in wq: wq.remove(sid); never+=1; gone.add(sid)
                elif sid in occ.values():
                    s=[k for k,v in occ.items() if v==sid][0]; occ[s]=None; gone.add(sid)
                    if wq: nx=wq.pop(0); occ[s]=nx; swaps+=1; admitted_from_q.append(nx)
                else: assert sid in gone,(seed,"unplug of unknown")
        before,wq_b,full,after,wq_a=net.trace[t]
        assert before==occ and wq_b==wq,(seed,t,before,occ,wq_b,wq)
        if early:
            for s in st:
                sid=occ[s]
                if sid is not None and sid in full and wq:
                    occ[s]=None; gone.add(sid); earlyc+=1; nx=wq.pop(0); occ[s]=nx; swaps+=1; admitted_from_q.append(nx)
        assert after==occ and wq_a==wq,(seed,t,"post",after,occ,wq_a,wq)
        placed=[v for v in occ.values() if v]; assert len(set(placed))==len(placed) and not set(placed)&set(wq)
        if wq: assert all(v is not None for v in occ.values())
    assert all(v is None for v in occ.values()) and not wq and (net.never_charged,net.swaps,net.early_unplug)==(never,swaps,earlyc),(seed,(net.never_charged,net.swaps,net.early_unplug),(never,swaps,earlyc))
    assert gone=={e.session_id for e in evs}
    for e in evs:
        if e.session_id not in admitted_from_q and e.energy_delivered>0: pass
    stats['waited_admitted']+=bool(admitted_from_q); stats['never']+=bool(never); stats['early']+=bool(earlyc); stats['n']+=1
for seed in range(int(sys.argv[1]),int(sys.argv[2])): trial(seed)
print(stats)
