import warnings, random
from datetime import datetime, timezone, timedelta
from unittest import mock
import pytz
from acnportal.acnsim import *
from acnportal.acnsim.events import acndata_events as ae
from acnportal.signals.tariffs import TimeOfUseTariff
from acnportal.algorithms import *
warnings.simplefilter("ignore")
rng=random.Random(3)
def rfc(e): return datetime.fromtimestamp(e,tz=timezone.utc).strftime("%a, %d %b %Y %H:%M:%S GMT")
tz=pytz.timezone("America/Los_Angeles")
start=tz.localize(datetime(2019,11,3,0,0)); end=tz.localize(datetime(2019,11,4,0,0))  # DST end day
s0=int(start.timestamp())
items=[]
for i in range(7):
    c=s0+rng.randint(0,80000); d=c+rng.randint(60,30000)
    items.append({"_id":str(i),"timezone":"America/Los_Angeles","connectionTime":rfc(c),"disconnectTime":rfc(d),"doneChargingTime":rfc(d-30),"kWhDelivered":rng.choice([0.5,6.2,14.0]),"sessionID":f"sess{i}","spaceID":f"CA-{300+i}","stationID":"x","userID":None})
pages=[{"_items":items[:3],"_links":{"next":{"href":"sessions/caltech?page=2"}}},{"_items":[],"_links":{"next":{"href":"sessions/caltech?page=3"}}},{"_items":items[3:],"_links":{}}]
calls=[]
def fake_get(url,auth=None):
    calls.append(url); r=mock.Mock(); r.json.return_value=pages[len(calls)-1]; return r
with mock.patch("acnportal.acndata.data_client.requests.get",fake_get):
    q=ae.generate_events("tok","caltech",start,end,5,208,6.6,force_feasible=True,max_len=100)
print(calls[0])
evs=sorted([e.ev for _,e in q._queue],key=lambda e:e.session_id)
for it,ev in zip(items,evs):
    c=int(it["connectionTime"].timestamp()); d=int(it["disconnectTime"].timestamp())
    ea=c//300-s0//300; ed=d//300-s0//300; ed=min(ed,ea+100)
    assert (ev.arrival,ev.departure,ev.station_id,ev.session_id)==(ea,ed,it["spaceID"],it["sessionID"]),(ev.arrival,ev.departure,ea,ed)
    assert abs(ev.requested_energy-min(it["kWhDelivered"],6.6*(ed-ea)*5/60))<1e-12
print("generate_events end-to-end ok", len(evs))
# Interface prices alignment
net=ChargingNetwork(); net.register_evse(EVSE("CA-300",max_rate=32),208,0); net.add_constraint(Current(["CA-300"]),50)
t=TimeOfUseTariff("sce_tou_ev_4_march_2019")
class A(BaseAlgorithm):
    def __init__(s): super().__init__(); s.max_recompute=1; s.obs=[]
    def schedule(s,a):
        i=s.interface; s.obs.append((i.current_time,i.get_prices(4).tolist(),i.get_prices(3,start=2).tolist(),i.get_demand_charge(),i.get_demand_charge(start=1))); return {}
st=datetime(2019,9,30,22,50)
sim=Simulator(net,A(),EventQueue([PluginEvent(0,EV(0,30,1,"CA-300","s",Battery(10,0,7)))]),st,period=5,verbose=False,signals={"tariff":t}); sim.run()
for (ct,p4,p3,dc,dc1) in sim.scheduler.obs:
    assert p4==[t.get_tariff(st+timedelta(minutes=5*(ct+k))) for k in range(4)] and p3==[t.get_tariff(st+timedelta(minutes=5*(2+k))) for k in range(3)] and dc==t.get_demand_charge(st+timedelta(minutes=5*ct)) and dc1==t.get_demand_charge(st+timedelta(minutes=5))
print("interface prices ok", sim.scheduler.obs[13][:2])
