import warnings, numpy as np
from acnportal.acnsim import *
warnings.simplefilter("ignore")
a = Current(["A"]); b = Current(["B"])
m = 0.25*b
print("a - 0.25*b ->", type(a-m).__name__, dict(a - m))
print("(0.25*b) - a ->", type(m-a).__name__, dict(m - a))
print("2*(a+b) - a", dict(2*(a+b) - a))
c = Current({"A":1,"B":2}); c *= 2; print("imul", type(c).__name__, dict(c))
print("c*2", type(c*2).__name__, "c/2", type(c/2).__name__, "-c", type(-c).__name__)
net = ChargingNetwork()
for s in "ABC": net.register_evse(EVSE(s, max_rate=32), 208, 0)
net.add_constraint(Current({"C":2.0}), 50, name="first")
print(net.constraints_as_df(), net.constraint_matrix)
net.add_constraint(Current({"B":1.0, "A":-1}), 5)
net.add_constraint(0.5*Current({"A":3}), 7)
print(net.constraints_as_df(), net.magnitudes, net.constraint_index)
net.remove_constraint("first"); net.add_constraint(Current({"A":3}), 7)
print(net.constraints_as_df(), net.magnitudes, net.constraint_index)
net.update_constraint("_const_1", Current({"C": 9}), 1.5, new_name="upd")
print(net.constraints_as_df(), net.magnitudes, net.constraint_index)
try:
    net.register_evse(EVSE("D"), 208, 0); print("registered after constraints!")
except Exception as e: print("EXC", type(e).__name__)
# remove all constraints then add
for n in list(net.constraint_index): net.remove_constraint(n)
print("after removing all:", net.constraint_matrix, net.constraint_matrix.shape, net.magnitudes)
net.add_constraint(Current({"B":1.0}), 5, name="again")
print(net.constraints_as_df())
S = np.arange(6.).reshape(3,2)
net.add_constraint(Current({"A":1.0}), 5, name="x2")
print(net.constraint_current(S, constraints=["x2","again"]), net.constraint_current(S, time_indices=[1]))
# empty current as first constraint
net2 = ChargingNetwork()
for s in "AB": net2.register_evse(EVSE(s, max_rate=32), 208, 0)
try:
    net2.add_constraint(Current(), 5, name="empty"); print(net2.constraints_as_df())
except Exception as e: print("EXC empty", type(e).__name__, e)
# duplicated name
net2.add_constraint(Current("A"), 5, name="empty"); print(net2.constraint_index, net2.constraints_as_df())
