import warnings, numpy as np
from datetime import datetime
from acnportal.acnsim import *
from acnportal.algorithms import *
from acnportal.signals.tariffs import TimeOfUseTariff
warnings.simplefilter("ignore")

print("=== C17: PGE winter")
t = TimeOfUseTariff("pge_a10_tou_aug_2019")
for d in [datetime(2019,1,15,9), datetime(2019,7,15,9), datetime(2019,11,2,9), datetime(2020,2,29,9)]:
    try: print(d, t.get_tariff(d), t.get_demand_charge(d))
    except Exception as e: print(d, "EXC", e)
for name in ["sce_tou_ev_4_march_2019","sce_tou_ev_4_march_2019_tou_periods_shifted","sce_tou_ev_8_june_2019","sce_tou_ev_8_oct_2018"]:
    t = TimeOfUseTariff(name)
    bad = 0
    from datetime import timedelta
    d = datetime(2020,1,1)
    while d.year == 2020:
        try: t.get_tariff(d)
        except Exception as e: bad += 1
        d += timedelta(hours=6)
    print(name, "bad", bad)

print("=== C07: estimator lookup by station vs session")
class Rec(SortedSchedulingAlgo):
    def __init__(self, *a, **k): super().__init__(*a, **k); self.log=[]
    def schedule(self, active):
        out = super().schedule(active)
        self.log.append((self.interface.current_time, dict(self.max_rate_estimator.upper_bounds), {k:v[0] for k,v in out.items()}))
        return out
def run(same_ids):
    net = ChargingNetwork()
    net.register_evse(EVSE("A", max_rate=32), 208, 0)
    net.add_constraint(Current(["A"]), 100, name="agg")
    sid = "A" if same_ids else "sess-1"
    # battery limited to 10 A => rampdown should kick in
    ev = EV(0, 12, 20.0, "A", sid, Battery(50, 0, 10*208/1000))
    alg = Rec(first_come_first_served, estimate_max_rate=True, max_rate_estimator=SimpleRampdown())
    sim = Simulator(net, alg, EventQueue([PluginEvent(0, ev)]), datetime(2020,1,1), period=5, verbose=False)
    sim.run()
    for l in alg.log[:6]: print(l)
    print("pilots", sim.pilot_signals[0][:8])
run(True); run(False)
