import warnings, numpy as np, json
from datetime import datetime
from acnportal.acnsim import *
from acnportal.algorithms import *
warnings.simplefilter("ignore")

class Boom(Exception): pass
class Scripted(BaseAlgorithm):
    """pilot = f(station, t); raises once at crash_t"""
    def __init__(self, crash_t=None, mr=1): super().__init__(); self.max_recompute=mr; self.crash_t=crash_t; self.calls=[]
    def schedule(self, active):
        t = self.interface.current_time
        if self.crash_t == t:
            self.crash_t = None
            raise Boom()
        self.calls.append(t)
        return {"A":[ (t%4)*8.0 ], "B":[ 8.0 + (t%3) ]}
def build(alg):
    net = ChargingNetwork()
    net.register_evse(EVSE("A", max_rate=32), 208, 0)
    net.register_evse(FiniteRatesEVSE("B", [8,9,10,16]), 240, 0)
    net.add_constraint(Current(["A","B"]), 60, name="agg")
    evs = [EV(0, 4, 5.0, "A", "s1", Battery(50, 0, 7)), EV(2, 6, 3.0, "B", "s2", Linear2StageBattery(10, 8.5, 7)),
           EV(4, 7, 2.0, "A", "s3", Battery(50, 0, 3))]
    q = EventQueue([PluginEvent(e.arrival, e) for e in evs]); q.add_event(RecomputeEvent(5))
    return Simulator(net, alg, q, datetime(2020,1,1), period=5, verbose=False, store_schedule_history=True)
ref = build(Scripted()); ref.run()
print("ref iteration", ref.iteration, "calls", ref.scheduler.calls)
print(ref.pilot_signals); print(np.round(ref.charging_rates,3))
print([ (e.event_type, e.timestamp, getattr(e,'session_id',None)) for e in ref.event_history])
for ct in range(0, 8):
    for js in (False, True):
        s = build(Scripted(crash_t=ct))
        try: s.run(); print("no crash at", ct); continue
        except Boom: pass
        if js:
            txt = s.to_json()
            s2 = Simulator.from_json(txt)
            alg = Scripted(); s2.update_scheduler(alg)
            # identity
            for st in s2.network.station_ids:
                ev = s2.network.get_ev(st)
                if ev is not None:
                    assert ev is s2.ev_history[ev.session_id]
                    unp = [e for _,e in s2.event_queue._queue if e.event_type=="Unplug" and e.ev.session_id==ev.session_id]
                    assert len(unp)==1 and unp[0].ev is ev
            s = s2
        s.run()
        same = (s.pilot_signals.shape==ref.pilot_signals.shape and np.array_equal(s.pilot_signals, ref.pilot_signals),
                s.charging_rates.shape==ref.charging_rates.shape and np.allclose(s.charging_rates, ref.charging_rates, atol=0, rtol=0),
                {k:v.energy_delivered for k,v in s.ev_history.items()} == {k:v.energy_delivered for k,v in ref.ev_history.items()},
                [(e.event_type,e.timestamp) for e in s.event_history]==[(e.event_type,e.timestamp) for e in ref.event_history],
                s.iteration==ref.iteration, s.peak==ref.peak,
                (s.schedule_history=={k:v for k,v in ref.schedule_history.items()}))
        print("crash", ct, "json" if js else "inproc", same)
