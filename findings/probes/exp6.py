import warnings, numpy as np, random
from datetime import datetime
from acnportal.acnsim import *
from acnportal.algorithms import *
from acnportal.contrib.acnsim import StochasticNetwork
warnings.simplefilter("ignore")

class Net(StochasticNetwork):
    def __init__(self, *a, **k): super().__init__(*a, **k); self.trace=[]
    def post_charging_update(self):
        super().post_charging_update()
        occ = {s: (e.ev.session_id if e.ev else None) for s,e in self._EVSEs.items()}
        self.trace.append((dict(occ), list(self.waiting_queue.keys())))
def run(seed, early, n_ev=8, n_st=2):
    rng = random.Random(seed)
    net = Net(early_departure=early)
    for i in range(n_st): net.register_evse(EVSE(f"S{i}", max_rate=32), 208, 0)
    net.add_constraint(Current([f"S{i}" for i in range(n_st)]), 64, name="agg")
    evs=[]
    for i in range(n_ev):
        a = rng.randint(0,6); d = a + rng.randint(1,6)
        evs.append(EV(a, d, rng.choice([0.5, 2.0, 20.0]), None, f"e{i}", Battery(100,0,7)))
    q = EventQueue([PluginEvent(e.arrival, e) for e in evs])
    random.seed(seed)
    sim = Simulator(net, UncontrolledCharging(), q, datetime(2020,1,1), period=5, verbose=False)
    sim.run()
    return sim, net, evs
for seed in range(200):
    for early in (False, True):
        sim, net, evs = run(seed, early)
        # invariants
        for t,(occ,wq) in enumerate(net.trace):
            placed = [v for v in occ.values() if v]
            assert len(set(placed))==len(placed)
            assert not (set(placed)&set(wq))
            if wq: assert all(v is not None for v in occ.values()), (seed, early, t, occ, wq)
        assert all(v is None for v in net.trace[-1][0].values()) and not net.trace[-1][1], (seed, early, net.trace[-1])
        sim2, net2, _ = run(seed, early)
        assert np.array_equal(sim.charging_rates, sim2.charging_rates)
print("C19 probes ok; sample:", net.trace[:4], net.swaps, net.never_charged, net.early_unplug)
