import warnings, numpy as np
from acnportal.acnsim import sites
warnings.simplefilter("ignore")
rng = np.random.default_rng(0)
def probe(net, groups, caps, label):
    ids = net.station_ids
    n = len(ids)
    worst = {g:0 for g in groups}
    for it in range(3000):
        kind = it % 4
        if kind==0: w = rng.random(n)
        elif kind==1: w = (rng.random(n) < rng.random()).astype(float)
        elif kind==2: w = np.ones(n)*rng.random() + 0.05*rng.random(n)
        else: w = rng.random(n)**4
        S = np.clip(w*32, 0, 32)
        # scale down to feasibility by bisection on factor
        lo, hi = 0.0, 1.0
        if net.is_feasible(S.reshape(-1,1)): lo = 1.0
        else:
            for _ in range(40):
                mid=(lo+hi)/2
                if net.is_feasible((S*mid).reshape(-1,1)): lo=mid
                else: hi=mid
        S = S*lo
        assert net.is_feasible(S.reshape(-1,1))
        for g,(members) in groups.items():
            P = 120*np.sqrt(3)*sum(S[ids.index(m)] for m in members)/1000
            worst[g] = max(worst[g], P/caps[g])
    print(label, {g: round(v,5) for g,v in worst.items()})
for basic in (True, False):
    net = sites.caltech_acn(basic_evse=basic, transformer_cap=150)
    probe(net, {"T": net.station_ids}, {"T":150}, f"caltech basic={basic}")
    net = sites.office001_acn(basic_evse=basic, transformer_cap=50)
    probe(net, {"T": net.station_ids}, {"T":50}, f"office basic={basic}")
    net = sites.jpl_acn(basic_evse=basic)
    ids = net.station_ids
    probe(net, {"T1":[i for i in ids if "-1F" in i], "T34":[i for i in ids if "-1F" not in i]}, {"T1":45,"T34":150}, f"jpl basic={basic}")
print(sorted(set(net._phase_angles)))
