import warnings, numpy as np, random
from datetime import datetime, timedelta
from acnportal.acnsim import *
from acnportal.algorithms import *
import acnportal.acnsim as acnsim
warnings.simplefilter("error")
warnings.filterwarnings("ignore", category=DeprecationWarning)

class Rec(BaseAlgorithm):
    def __init__(self, mr, script): super().__init__(); self.max_recompute=mr; self.script=script; self.calls=[]
    def schedule(self, active):
        i = self.interface; t = i.current_time; sim = i._simulator
        self.calls.append(dict(t=t, n_hist=len(sim.event_history), active={s.session_id:(s.station_id, s.energy_delivered) for s in active},
            occ={st:(sim.network.get_ev(st).session_id if sim.network.get_ev(st) else None) for st in sim.network.station_ids},
            lap=dict(i.last_applied_pilot_signals), lar=dict(i.last_actual_charging_rate), peak=i.get_prev_peak(), dt=i.current_datetime,
            pilots_seen={st: sim.network._EVSEs[st].current_pilot for st in sim.network.station_ids}))
        return self.script(t)
def trial(seed):
    rng = random.Random(seed)
    nst = rng.randint(1,3); stations=[f"S{i}" for i in range(nst)]
    period = rng.choice([1,5,7.5]); mr = rng.choice([None,1,2,3])
    net = ChargingNetwork()
    volts = {s: rng.choice([120,208,240]) for s in stations}
    for s in stations: net.register_evse(EVSE(s, max_rate=32), volts[s], 0)
    if rng.random()<0.5: net.add_constraint(Current(stations), 1000, name="agg")
    sessions=[]; sid=0
    for s in stations:
        t=rng.randint(0,3)
        for _ in range(rng.randint(0,3)):
            a=t+rng.choice([0,0,1,2]); d=a+rng.randint(1,4)
            bt = rng.choice(["ideal","2s"])
            batt = Battery(rng.choice([5,50]), 0, rng.choice([3,7])) if bt=="ideal" else Linear2StageBattery(rng.choice([5,50]), rng.choice([0,3.5]), rng.choice([3,7]))
            sessions.append(EV(a,d,rng.choice([0.05,1.0,30.0]), s, f"e{sid}", batt)); sid+=1; t=d
    if not sessions: return None
    events=[PluginEvent(e.arrival,e) for e in sessions]
    for _ in range(rng.randint(0,2)): events.append(RecomputeEvent(rng.randint(0,12)))
    rng.shuffle(events)
    table={}
    def script(t):
        k=rng.choice([0,1,1,2,3]);
        if k==0: out={}
        else:
            sub=[s for s in stations if rng.random()<0.7] or [stations[0]]
            out={s:[rng.choice([0,6,16,32.0]) for _ in range(k)] for s in sub}
        table[t]=out; return out
    alg=Rec(mr, script)
    sim=Simulator(net, alg, EventQueue(events), datetime(2020,3,1,8), period=period, verbose=False)
    sim.run()
    # --- model
    last_ev = max([e.departure for e in sessions]+[e.timestamp for e in events])
    assert sim.iteration == last_ev+1, (sim.iteration, last_ev)
    assert sim.event_queue.empty() and all(net.get_ev(s) is None for s in stations)
    # event order
    keys=[(e.timestamp, e.precedence) for e in sim.event_history]; assert keys==sorted(keys)
    # calls model
    ev_times=set(k[0] for k in keys)
    exp=[]; last=None
    for t in range(last_ev+1):
        if t in ev_times or (mr is not None and (last is None or t-last>=mr)): exp.append(t); last=t
    got=[c['t'] for c in alg.calls]
    assert got==exp, (seed, mr, got, exp, sorted(ev_times))
    # pilot model
    W = sim.pilot_signals.shape[1]
    model=np.zeros((nst, max(W, last_ev+1+5)))
    for t in got:
        sch=table[t]
        if sch:
            L=len(next(iter(sch.values())))
            for i,s in enumerate(stations): model[i,t:t+L]= sch.get(s,[0]*L)
    assert np.array_equal(sim.pilot_signals, model[:, :W]), (seed, sim.pilot_signals, model[:, :W])
    assert not model[:, W:].any()
    # ledger
    for e in sessions:
        i=stations.index(e.station_id)
        en=sum(sim.charging_rates[i,t]*volts[e.station_id]/1000*period/60 for t in range(e.arrival,e.departure))
        assert abs(en-e.energy_delivered)<1e-9, (seed, en, e.energy_delivered)
        assert abs((e._battery._current_charge-e._battery._init_charge)-e.energy_delivered)<1e-9
    occ=np.zeros_like(sim.charging_rates,dtype=bool)
    for e in sessions: occ[stations.index(e.station_id), e.arrival:e.departure]=True
    assert not sim.charging_rates[~occ].any()
    assert (sim.charging_rates<=sim.pilot_signals[:, :sim.charging_rates.shape[1]]+1e-9).all() and (sim.charging_rates>=0).all()
    assert abs(sim.peak-max(0,sim.charging_rates.sum(axis=0).max()))<1e-9
    # calls observations
    for c in alg.calls:
        t=c['t']
        for s in stations:
            who=[e.session_id for e in sessions if e.station_id==s and e.arrival<=t<e.departure]
            assert c['occ'][s]==(who[0] if who else None), (seed,t,s,c['occ'],who)
        assert c['dt']==datetime(2020,3,1,8)+timedelta(minutes=period)*t
        if t>=1:
            for s in stations: assert c['pilots_seen'][s]== (model[stations.index(s),t-1] if c['occ'][s] is not None and [e for e in sessions if e.session_id==c['occ'][s]][0].arrival<=t-1 else c['pilots_seen'][s])
    return len(alg.calls)
n=0
for seed in range(3000):
    r=trial(seed)
    if r: n+=1
print("ok trials", n)
