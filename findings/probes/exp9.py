import warnings, numpy as np, random, sys, traceback, collections
from datetime import datetime
from acnportal.acnsim import *
from acnportal.algorithms import *
warnings.simplefilter("error")
warnings.filterwarnings("ignore", category=DeprecationWarning)
SORTS=[first_come_first_served,last_come_first_served,earliest_deadline_first,least_laxity_first,largest_remaining_processing_time]
def trial(seed):
    rng=random.Random(seed)
    nst=rng.randint(1,6); st=[f"S{i}" for i in range(nst)]
    period=rng.choice([1,5,15]); 
    net=ChargingNetwork()
    volts={}
    for s in st:
        volts[s]=rng.choice([120,208,240,277])
        k=rng.random()
        if k<0.4: ev=EVSE(s,max_rate=rng.choice([16,32,40,80]))
        elif k<0.7: ev=FiniteRatesEVSE(s,[0]+list(range(6,33)))
        else: ev=FiniteRatesEVSE(s,rng.sample([8,16,24,32,48],rng.randint(1,4)))
        net.register_evse(ev,volts[s],rng.choice([0,0,30,-90,150,120,-120]))
    for c in range(rng.randint(0,4)):
        sub=rng.sample(st,rng.randint(1,nst))
        net.add_constraint(Current({s:rng.choice([1,1,1,-1,0.5,-0.25]) for s in sub}), rng.choice([4,7.5,10,20,33,50,100]), name=f"c{c}")
    if net.constraint_matrix is None and rng.random()<0.7:
        net.add_constraint(Current(st), rng.choice([10,40,500]), name="agg")
    sessions=[]; sid=0
    for s in st:
        t=rng.randint(0,3)
        for _ in range(rng.randint(0,3)):
            a=t+rng.choice([0,1,2]); d=a+rng.randint(1,8)
            req=rng.choice([0.01,0.2,1.0,3.0,12.0])
            bt=rng.random()
            if bt<0.5: batt=Battery(rng.choice([req,req*2,50]),0,rng.choice([1.5,3.3,7,20]))
            else: batt=Linear2StageBattery(rng.choice([req*1.2,req*2,50]),0,rng.choice([1.5,3.3,7,20]), transition_soc=rng.choice([0.0,0.5,0.8]))
            sessions.append(EV(a,d,req,s,f"sess{sid}",batt,estimated_departure=a+rng.randint(1,10))); sid+=1; t=d
    if not sessions: return None
    cls=rng.choice(["greedy","rr"]); sort=rng.choice(SORTS); est=rng.random()<0.4; unint=rng.random()<0.4
    kw=dict(estimate_max_rate=est, max_rate_estimator=SimpleRampdown() if est else None, uninterrupted_charging=unint)
    alg=SortedSchedulingAlgo(sort,**kw) if cls=="greedy" else RoundRobin(sort,continuous_inc=rng.choice([0.1,0.5,1,3]),**kw)
    sim=Simulator(net,alg,EventQueue([PluginEvent(e.arrival,e) for e in sessions]),datetime(2020,1,1),period=period,verbose=False)
    sim.run()
    for e in sessions:
        assert e.energy_delivered<=e.requested_energy*(1+1e-9)+1e-12,(e.energy_delivered,e.requested_energy)
    return (cls,sort.__name__,est,unint)
bad=collections.Counter(); n=0
for seed in range(int(sys.argv[1]), int(sys.argv[2])):
    try:
        r=trial(seed); n+= r is not None
    except Exception as e:
        tb=traceback.extract_tb(e.__traceback__)
        fr=[f for f in tb if 'acnportal' in f.filename][-1]
        key=(type(e).__name__, fr.filename.split('acnportal/')[-1], fr.lineno, str(e)[:80])
        if bad[key]==0: print("seed",seed,key)
        bad[key]+=1
print("trials",n,"buckets",len(bad)); 
for k,v in bad.most_common(): print(v,k)
