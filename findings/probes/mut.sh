#!/bin/bash
# usage: mut.sh name file sed-expr script [args]
name=$1; file=$2; expr=$3; shift 3
rm -rf /tmp/scratch/m_$name; rsync -a --exclude .git /tmp/scratch/repo_fix/ /tmp/scratch/m_$name/
sed -i "$expr" /tmp/scratch/m_$name/$file
if diff -q /tmp/scratch/repo_fix/$file /tmp/scratch/m_$name/$file >/dev/null; then echo "[$name] MUTATION DID NOT APPLY"; rm -rf /tmp/scratch/m_$name; exit; fi
out=$(PYTHONPATH=/tmp/scratch/m_$name timeout 600 /venv/bin/python "$@" 2>&1 | grep -v "conda\|pkg_resources" | tail -3 | tr '\n' ' ' | cut -c1-300)
echo "[$name] $out"
rm -rf /tmp/scratch/m_$name
