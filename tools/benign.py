#!/venv/bin/python
"""Soundness tool: semantics-preserving changes of acnportal (mutants/benign.json) must leave
EVERY check quiet (exit 0).  Each change is applied to a scratch copy; /repo is never touched.

    tools/benign.py [name ...]
"""
import json
import os
import shutil
import subprocess
import sys
from concurrent.futures import ThreadPoolExecutor

VERIF = os.path.dirname(os.path.dirname(os.path.abspath(__file__)))
sys.path.insert(0, os.path.join(VERIF, "tools"))
import mut  # noqa: E402

IDS = ["C%02d" % i for i in range(1, 21)]


def one(m):
    d, repo = mut.scratch()
    try:
        path = os.path.join(repo, m["file"])
        src = open(path).read()
        if src.count(m["old"]) != 1:
            return m["name"], [("bad-mutant", "old occurs %d times" % src.count(m["old"]))]
        open(path, "w").write(src.replace(m["old"], m["new"]))
        bad = []
        for pid in IDS:
            rc, out, secs = mut.run_check(pid, repo, d)
            if rc != 0:
                bad.append((pid, "rc=%d %s" % (rc, [line for line in out.splitlines() if line.startswith("---") or "HARNESS" in line][:2])))
        return m["name"], bad
    finally:
        shutil.rmtree(d, ignore_errors=True)


def main():
    ms = json.load(open(os.path.join(VERIF, "mutants", "benign.json")))
    if sys.argv[1:]:
        ms = [m for m in ms if m["name"] in sys.argv[1:]]
    with ThreadPoolExecutor(max_workers=int(os.environ.get("MUT_JOBS", "3"))) as ex:
        results = list(ex.map(one, ms))
    rc = 0
    for name, bad in results:
        print("%-45s %s" % (name, "quiet on all 20 checks" if not bad else "NOT QUIET: %r" % bad))
        rc |= bool(bad)
    json.dump({n: b for n, b in results}, open(os.path.join(VERIF, "mutants", "results", "benign.json"), "w"), indent=1)
    return rc


if __name__ == "__main__":
    sys.exit(main())
