#!/venv/bin/python
"""Measure label rates of a check over several seeds and compare them with the declared
vacuity floors (DESIGN.md 2.4: a floor must be at most half of the lowest measured rate).

    tools/floors.py C07 [nseeds]
"""
import json
import os
import subprocess
import sys
import tempfile

VERIF = os.path.dirname(os.path.dirname(os.path.abspath(__file__)))
sys.path.insert(0, VERIF)
sys.path.insert(0, "/repo")


def main():
    pid = sys.argv[1]
    n = int(sys.argv[2]) if len(sys.argv) > 2 else 6
    from acnverif import runner

    mod = runner.load_property(pid)
    floors = {s.name: s.floors for s in mod.subchecks("quick")}
    rates = {}
    for seed in range(1, n + 1):
        out = tempfile.mkdtemp(dir="/tmp")
        env = dict(os.environ, VERIF_SEED=str(seed), ACNVERIF_OUT=out)
        p = subprocess.run([os.path.join(VERIF, "check"), pid, "--tier", "quick"], env=env, capture_output=True, text=True)
        ev = json.load(open(os.path.join(out, "evidence", pid + ".json")))
        for name, sub in ev["coverage"]["subchecks"].items():
            for lab in floors.get(name, {}):
                rates.setdefault((name, lab), []).append(sub["labels"].get(lab, 0) / max(1, sub["evaluations"]))
        print("seed", seed, "rc", p.returncode, p.stdout.strip().splitlines()[-1][:100])
        subprocess.run(["rm", "-rf", out])
    bad = 0
    for (name, lab), rs in sorted(rates.items()):
        fl = floors[name][lab]
        flag = "" if fl <= min(rs) / 2 else "   <-- floor above half of the lowest rate"
        bad += bool(flag)
        print("%-28s %-40s floor %.3f  min %.3f  mean %.3f%s" % (name, lab, fl, min(rs), sum(rs) / len(rs), flag))
    return 1 if bad else 0


if __name__ == "__main__":
    sys.exit(main())
