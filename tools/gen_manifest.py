#!/venv/bin/python
"""Regenerate MANIFEST.json from the table below (keeps it valid at all times)."""
import json
import os

VERIF = os.path.dirname(os.path.dirname(os.path.abspath(__file__)))

# id -> (technique, level text, level note, design ref)
CHECKS = {}
NOT_YET = {}


def claim(pid, technique, text, note, ref):
    CHECKS[pid] = (technique, text, note, ref)


exec(open(os.path.join(VERIF, "tools", "manifest_table.py")).read())

all_ids = ["C%02d" % i for i in range(1, 21)]
checks = []
for pid in all_ids:
    if pid not in CHECKS:
        continue
    technique, text, note, ref = CHECKS[pid]
    checks.append(
        {
            "property_id": pid,
            "quick_cmd": "./check %s --tier quick" % pid,
            "thorough_cmd": "./check %s --tier thorough" % pid,
            "evidence_file": "/verif/evidence/%s.json" % pid,
            "replay_cmd_template": "./check %s --replay {path}" % pid,
            "engine": "acnverif",
            "level_claimed": {"category": "exploration", "text": text, "design_ref": ref},
            "level_note": note,
            "technique": technique,
        }
    )
manifest = {
    "version": 1,
    "setup_cmd": "/venv/bin/python -c 'import hypothesis' 2>/dev/null || /venv/bin/pip install --no-index --find-links /opt/veriftools/wheels hypothesis",
    "hooks": {
        "guard": "ACNPORTAL_VERIF",
        "enable": "no source hooks are needed: every observation point is public API, a designed override point or a test-side patch of a module attribute; checks import /repo's working tree directly",
        "baseline_off_cmd": "cd /repo && /venv/bin/python -m pytest -ra -q -p no:cacheprovider --timeout=900 --continue-on-collection-errors",
        "source_commits": [],
        "add_only": True,
    },
    "engines": [
        {
            "name": "acnverif",
            "path": "/verif/acnverif",
            "serves_properties": sorted(CHECKS),
            "kind_free_text": "Hypothesis 6.168 property-based testing (strategies -> JSON scenario specs -> build layer -> explicit oracles), rule-based state machines for call histories, exhaustive enumeration of small finite domains; runner ./check writes evidence, replays and VIOLATION lines",
        }
    ],
    "checks": checks,
    "notes": "Every check is generated-input search against an explicit oracle (see DESIGN.md). Genuine defects found are repaired in /repo with 'fix:' commits and listed in known_findings.json; corpus/<ID>/*.json replays their reproducers first on every run.",
    "not_applicable": [{"property_id": pid, "reason": NOT_YET.get(pid, "check not built yet (work in progress in this round)")} for pid in all_ids if pid not in CHECKS],
}
with open(os.path.join(VERIF, "MANIFEST.json"), "w") as f:
    json.dump(manifest, f, indent=1)
print("MANIFEST.json written; claims:", " ".join(sorted(CHECKS)))
