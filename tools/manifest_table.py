claim(
    "C11",
    "Hypothesis rule-based state machine vs. list model of pending events; exhaustive small-scope enumeration of op sequences",
    "Exploration: 600 (quick) / 60 000 (thorough) generated histories of up to 30 queue operations incl. JSON round trips, plus ALL op sequences up to length 4 (quick) / 5 (thorough) over 13 operations; every retrieval and every len/empty/last-timestamp answer is compared with a list model. No absence proof beyond the enumerated scope.",
    "Trusted: the list model and the type-rank table (unplug<plug-in<recompute) in acnverif/props/c11.py; integer timestamps; ties on (timestamp, type) may come out in any order from one queue (a restored queue must follow its original).",
    "DESIGN.md 3/C11",
)
claim(
    "C13",
    "Hypothesis-generated EVSEs with the complete +-tolerance boundary grid of pilots vs. an independent acceptance predicate and state snapshots",
    "Exploration: 1 500 (quick) / 150 000 (thorough) generated EVSEs of all three classes, ~30 pilots each (every boundary of the allowable set at 9 offsets around the 1e-3 A tolerance, plus random pilots), applied directly or through the network, with and without a connected EV; accepted/rejected is compared with an independent predicate, rejected pilots must leave pilot/EV/battery untouched, and every value advertised by EVSE, network cache, Interface and InfrastructureInfo must be accepted.",
    "Trusted: the per-class predicate and the 1e-9 A guard band in acnverif/props/c13.py; rates and bounds are non-negative.",
    "DESIGN.md 3/C13",
)
claim(
    "C14",
    "Hypothesis-generated battery states and pilot sequences vs. an independent closed-form ODE solution; metamorphic T=T/2+T/2, monotonicity, zero pilot, reset",
    "Exploration: 4 000 (quick) / 600 000 (thorough) generated (battery, trajectory) cases; every step is compared with an independently written closed form of the documented law (1e-9*capacity), which is itself cross-checked against RK4 on a sample; plus the split-period identity, monotonicity in pilot and period, exact zero for a zero pilot and reset semantics. The stepwise model is compared with its documented per-step formula only.",
    "Trusted: acnverif/oracles/battery_law.py; non-zero pilots >= 1e-8 A; stored charge read from the battery's state attribute.",
    "DESIGN.md 3/C14",
)
claim(
    "C03",
    "Hypothesis-generated pilot sequences with generated noise draws (numpy.random.normal patched) through EVSE->EV->Battery, invariant bounds after every step; simulation-level column-wise bound on generated simulations",
    "Exploration: 3 000 (quick) / 400 000 (thorough) generated sequences of up to 30 pilots on all battery models and noise levels, the noise draws being part of the generated input (incl. +-6 sigma), with unplug/re-plug of the same EV; after every step 0<=rate<=pilot, power<=max, rate*V=power, charge non-decreasing and <= capacity. Plus generated whole simulations checking 0<=charging_rates<=pilot_signals.",
    "Trusted: slack constants (1e-8 A, 1e-9 relative power, 1e-12*capacity); non-zero pilots >= 1e-8 A.",
    "DESIGN.md 3/C03",
)
claim(
    "C06",
    "Hypothesis-generated networks and boundary-aimed schedule matrices vs. an exact (fsum) phasor predicate with guard band; three-way differential of the checkers; metamorphic linear=>phase-aware; re-check after update_constraint",
    "Exploration: 3 000 (quick) / 400 000 (thorough) generated (network, tolerances, schedule) cases, about half within 3 tolerances of a limit, compared on four entry points (network, interface dict form, algorithm-side 2-D and 1-D) in phase-aware and linear mode against the definition, before and after in-place constraint updates; constraint-free networks accept everything and all three bundled schedulers complete a simulation on them.",
    "Trusted: acnverif/oracles/phasor.py; guard band 1e-10*(1+limit) (cases inside are counted, not judged); the algorithm-side function is passed the same tolerances explicitly.",
    "DESIGN.md 3/C06",
)
claim(
    "C17",
    "Exhaustive enumeration of (tariff file x calendar type x day x instants around every breakpoint; every minute in the thorough tier) vs. an independent JSON parser; Hypothesis-generated price vectors and small simulations for interface alignment and cost formulas",
    "Exploration, exhaustive over the stated calendar domain in the thorough tier: all 5 bundled files x 14 calendar types x every day x (quick) every breakpoint +-1 s/+-1 min and day ends, ~5*10^5 lookups, or (thorough) every minute, ~3.7*10^7 lookups; two years share one tariff object so history dependence shows. 600/40 000 generated price vectors (n<=600, five period lengths) and 150/8 000 generated simulations whose scheduler records get_prices/get_demand_charge for start None/0/k/t+1, with energy_cost and demand_charge recomputed from recorded rates.",
    "Trusted: the independent parser in acnverif/props/c17.py, which reads the same bundled JSON (published utility prices are not cross-checked); naive datetimes at one-second resolution.",
    "DESIGN.md 3/C17",
)
claim(
    "C01",
    "Hypothesis-generated whole scenarios (JSON specs -> build layer) vs. an independent reference model of the run loop; occupancy snapshot in every period through the post_charging_update override point; step bound for termination",
    "Exploration: 500 (quick) / 40 000 (thorough) generated scenarios (1-6 stations of all EVSE classes, back-to-back reuse, simultaneous events, recompute events, five period lengths, max_recompute None/1/2/3/7, scripted/always-max/uncontrolled/greedy/round-robin schedulers, shuffled insertion). Checked: termination within last+1 periods, queue empty, stations vacant, event multiset exactly once each, order (time, unplug<plug-in<recompute), every event handled in its period, occupant of every station in every period, current only (and in the always-max family: whenever) connected. The same scenario is also run on a simulator dumped to JSON and loaded before its first period, and with an EventQueue object that was queried for a late period before being filled.",
    "Trusted: acnverif/scenario.py (build layer and Model); sessions on one station never overlap; continuous EVSEs have min_rate 0.",
    "DESIGN.md 3/C01",
)
claim(
    "C02",
    "Hypothesis-generated whole simulations; three-way ledger relation (EV counter = integral of recorded rates = battery gain via JSON dump) and first-principles recomputation of peak / aggregate power / totals against the reference model's occupancy",
    "Exploration: 400 (quick) / 30 000 (thorough) generated simulations with all battery models, generated noise draws, heterogeneous voltages, fractional periods and schedules addressing vacant stations; per session the three energy figures agree to 1e-9 relative; recorded rate exactly 0 wherever the model has no EV connected; peak, aggregate current/power and total energy recomputed from the rate matrix. A second sub-check repeats the ledger on 200 / 15 000 StochasticNetwork histories (run-time station assignment, waiting queue, early departure).",
    "Trusted: acnverif/scenario.py Model for occupancy; tolerance 1e-9 relative (+1e-12, battery 1e-11*capacity absolute).",
    "DESIGN.md 3/C02",
)
claim(
    "C04",
    "Hypothesis-generated schedule sequences (scripted scheduler table inside generated scenarios) vs. the reference model's overlay matrix; per-period read-back of EVSE.current_pilot; metamorphic entry-order reversal; fault injection of malformed schedules with before/after state snapshots and resume",
    "Exploration: 500 (quick) / 40 000 (thorough) generated scenarios whose scheduler returns generated schedules (empty, any station subset, length 1-6 incl. beyond the horizon in the last period, int/float/numpy values, shuffled entries, any max_recompute). Final pilot_signals (+ DataFrame view) equals the overlay of the submitted schedules on the whole width; the pilot each EVSE holds after every period equals the overlay column; reversed entry order gives a bit-identical result; an unknown station id / unequal rows raise KeyError / InvalidScheduleError with no state change and the run can be resumed. In a third of the cases the run is additionally interrupted, dumped to JSON, loaded and resumed, and pending multi-period schedules must survive.",
    "Trusted: acnverif/scenario.py Model.overlay; pilots drawn from the station's allowable set.",
    "DESIGN.md 3/C04",
)
claim(
    "C05",
    "Hypothesis-generated scenarios run twice (pure recording scheduler vs. a vandal that overwrites everything it is handed); recorded observations at every call compared with the reference model (invocation periods, ledger-derived active sessions, previous rates/peak/pilots, infrastructure from the spec); differential pure vs. vandal",
    "Exploration: 300 (quick) / 20 000 (thorough) generated scenario pairs over all max_recompute values and scheduler kinds. Invocation periods equal the model's iff-condition; every Interface answer at every call (time, datetime, active sessions and their fields, last rates, previous peak, last applied pilots incl. the empty first two periods, full infrastructure description, per-station accessors, remaining amp-periods) equals the spec/ledger; the vandal run is identical to the pure run in matrices, energies, events, network description and all later observations.",
    "Trusted: acnverif/scenario.py Model; sessions within 1e-6 kWh of the 1e-3 kWh activity threshold are not judged; only documented copies are vandalised.",
    "DESIGN.md 3/C05",
)
claim(
    "C09",
    "Hypothesis-generated (scenario, crash point, mode) with fault injection in the scheduler; differential against the uninterrupted run; JSON round-trip oracle (canonicalised dump of the loaded object equals the dump it was loaded from) and object-identity checks",
    "Exploration: 200 scenarios x up to 3 crash points (quick) / 6 000 scenarios x EVERY scheduler invocation x both modes (thorough). The scheduler raises once at the crash point; the run is resumed in process or after to_json/from_json/update_scheduler. Pilots, rates (exact), energies, peak, iteration, event history and schedule history equal the uninterrupted run; after loading, connected EV / ev_history / pending unplug share one object, the pending queue is the same multiset and pops in order, and re-dumping the loaded simulator reproduces the same object graph.",
    "Trusted: the scheduler is deterministic in (period, observed state); patched battery noise continues across the interruption; the 'scheduler' attribute is excluded from the dump comparison (documented as not serialised).",
    "DESIGN.md 3/C09",
)
claim(
    "C10",
    "Hypothesis-generated scenarios with three generated permutations and a time shift; metamorphic relations (same spec twice, permuted build, shifted build) on per-station outputs; tie exclusion by construction plus runtime discard",
    "Exploration: 600 (quick) / 30 000 (thorough) generated scenarios with heavy contention and binding constraints; scripted, uncontrolled, greedy and round-robin (five sort orders, with/without uninterrupted charging, max_recompute 1/2/3/None) schedulers. Same spec twice is bit-identical; permuting station registration, constraint insertion and event insertion leaves per-station pilots exactly equal and rates/energies equal to 1e-12; shifting all events by k in [1,8] shifts pilots, rates and event times by k. A simulator built through a JSON dump/load gives the same per-station outputs; scripted schedulers may steer by interface.is_feasible with mappings naming every station.",
    "Trusted: arrivals/departures/estimated departures pairwise distinct, laxity/processing-time near ties discarded and counted; noise off; no upper-bound estimator; the shift relation is claimed for max_recompute in {None,1} or a first event in period 0.",
    "DESIGN.md 3/C10",
)
claim(
    "C07",
    "Hypothesis-generated whole simulations under greedy / round-robin with every option; a wrapper captures every emitted schedule and the estimator's returned bounds; per-schedule validity predicates (exact phasor feasibility, independent EVSE predicate, remaining-demand and estimator bounds, zero for inactive stations) plus run-level warnings/exceptions/over-delivery",
    "Exploration: 400 (quick, ~4 000 schedules) / 30 000 (thorough) generated simulations over continuous-from-zero and finite-rate EVSEs, three-phase mixed-sign binding constraints, tiny to large requests, throttling batteries, 5 sort orders x uninterrupted x SimpleRampdown(generated thresholds) x increments x max_recompute. Every emitted schedule satisfies the five validity clauses; no infeasible-schedule warning, no exception, no session receives more than it requested. In a third of the constrained cases a constraint limit is changed with update_constraint in the middle of the run.",
    "Trusted: acnverif/oracles/phasor.py; default network tolerances; deadband / min_rate>0 EVSEs are outside the property's stated domain.",
    "DESIGN.md 3/C07",
)
claim(
    "C08",
    "Hypothesis-generated single invocations vs. independent oracles: own sort keys; closed-form (quadratic) maximum per continuous session and brute force over levels for finite-rate sessions given earlier grants; reconstruction of every round-robin attempt from the final levels; exact rule for the uncontrolled baseline",
    "Exploration: 1 200 + 800 + 300 (quick) / 150 000 + 100 000 + 20 000 (thorough) generated invocations with partially served sessions (history built through EV.charge), distinct priority keys, several binding mixed-sign three-phase constraints. Greedy: each session in priority order gets the closed-form maximum (within the 0.01 A bisection resolution) or exactly the largest feasible level. Round-robin: every successful raise feasible, every stop blocked or at its own bound. Uncontrolled: exactly the station maximum for active sessions, nothing else.",
    "Trusted: the closed-form / brute-force oracles in acnverif/props/c08.py; invocation at period 0; key near-ties (1e-6), margins within 1e-9 of zero and levels within 1e-9 of a float bound are discarded and counted.",
    "DESIGN.md 3/C08",
)
claim(
    "C12",
    "Hypothesis rule-based state machine (op log = replay file) over ChargingNetwork with generated Current expression trees vs. a name-keyed model in exact rational arithmetic; alignment invariant after every step; subset/time queries vs. the model's phasor sums; rejected operations must leave a bit-identical snapshot",
    "Exploration: 400 (quick) / 40 000 (thorough) generated histories of up to 25 operations (register, add, failing add on an unregistered station, remove, update with/without rename, unknown names, subset and time-index queries) with expression trees of depth <= 3 over dict/str/list/Series leaves. After every step matrix rows, limits and names are aligned with the model (row positions read back, columns in registration order, no NaN), queries return rows in network order and the requested columns, is_feasible follows the aligned limits, late registration and rejected operations change nothing. Histories include JSON round trips (continuing on the restored network), linear-mode queries and queries directly before and after a removal / update.",
    "Trusted: the rational model in acnverif/props/c12.py; dyadic coefficients; explicit unique names (auto-naming is not modelled).",
    "DESIGN.md 3/C12",
)
claim(
    "C15",
    "Hypothesis-generated ACN-Data documents (through get_evs / generate_events with a stubbed DataClient), stochastic sample matrices (through StochasticEvents.generate_events with sample() overridden) and (energy, stay, voltage, period) tuples for the capacity fit; oracles: integer-arithmetic bucketing, exact-rational floors with a guard band, recording capacity function, independent full-rate charging simulation",
    "Exploration: 1 500 + 800 + 1 500 (quick) / 200 000 + 100 000 + 200 000 (thorough) generated cases: five time zones, DST-adjacent and boundary-aimed instants, sub-second parts, zero-length and sub-period stays, max_len, force_feasible, ideal / two-stage / fitted batteries with kwargs, invalid stochastic rows, multi-day and empty days, periods that do not divide 60. Arrival/departure equal the floored period indices minus the start index, caps and requested energy follow the stated formulas, ids are copied, the capacity function receives (request, stay in periods, voltage, period), free capacity covers the request and the fit's battery delivers the request (1e-6 kWh) when charged at 32 A for the stay; a refusal is only accepted when no listed capacity can serve the request.",
    "Trusted: epoch-millisecond integer arithmetic in acnverif/props/c15.py; stochastic max_len compared in hours (pinned by existing tests); 1e-6 kWh fit tolerance; float floors within 1e-9 relative of an integer accept both neighbours.",
    "DESIGN.md 3/C15",
)
claim(
    "C16",
    "Hypothesis-generated frontier search (generated weight patterns and ascent orders, bisection and coordinate ascent on network.is_feasible, hypothesis.target on P/capacity) against a physical, angle-free power bound and independently computed pod / panel line currents from a transcribed topology; exhaustive structural sub-check over sites x EVSE types",
    "Exploration: 320 (quick) / 30 000 (thorough) frontier starts over caltech / jpl / office001, basic and real EVSE types, transformer capacities in (10, 400) kW chosen so that the transformer binds, phase-aware and linear feasibility. Every accepted schedule (scaled, ascended, snapped to allowable levels) keeps 120*sqrt(3)*sum(I) within each transformer's rating (best ratios reached: 0.99999, never above 1) and every pod / sub-panel line current within its rating. Exhaustive: documented station sets (54/52/8), angles equal to the documented line-to-line pair, every station in its transformer's secondary constraints, EVSE level sets. A quarter of the frontier starts and half of the structural cases use the site network restored from its JSON dump.",
    "Trusted: the topology tables and delta-connection computation in acnverif/props/c16.py; nominal 120/208 V, unity power factor.",
    "DESIGN.md 3/C16",
)
claim(
    "C18",
    "Hypothesis-generated completed simulations plus generated request lists / phase triples / thresholds; every analysis function recomputed from first principles (rate matrix, spec voltages, phases, coefficients, session energies)",
    "Exploration: 300 (quick) / 20 000 (thorough) generated simulations with heterogeneous voltages, three-phase mixed-sign constraints, fractional periods, aware and naive starts. aggregate_current/power, constraint_currents (keys and magnitudes for arbitrary sub-multisets in arbitrary order, both flag values), energy totals and proportions, demands met for five thresholds, NEMA unbalance for arbitrary phase triples and datetimes_array (length, start, spacing) equal their definitions to 1e-9.",
    "Trusted: the first-principles formulas in acnverif/props/c18.py; constraint currents compared by magnitude (flag semantics are pinned by the repository's own test, DESIGN.md 5).",
    "DESIGN.md 3/C18",
)
claim(
    "C19",
    "Hypothesis-generated StochasticNetwork histories with ALL station choices generated (random.choice patched, part of the shrinkable input); occupancy / queue snapshots at two points of every period compared with a reference model replayed in event_history order; counters and end state; seed-reproducibility sub-check with the real RNG",
    "Exploration: 500 + 60 (quick) / 40 000 + 3 000 (thorough) generated histories (1-4 stations, 2-14 heavily overlapping sessions, declared station hints, early_departure on/off, uncontrolled / greedy / always-max schedulers). In every period every arrived EV is in exactly one place, no EV waits while a station is free, queue admissions are FIFO (also on early departure of satisfied EVs), snapshots after the events and after the charging update equal the model, never_charged / swaps / early_unplug equal the model's counts, every session is gone at the end; two runs under one random.seed are identical.",
    "Trusted: the occupancy/queue model in acnverif/props/c19.py; satisfaction judged by the recorded rate ledger with a 1e-6 kWh guard around the 1e-3 threshold.",
    "DESIGN.md 3/C19",
)
claim(
    "C20",
    "Hypothesis-generated fake servers (page structures, documents, zones, DST-adjacent instants) and queries against a recording transport patched over requests.get/head; oracles: concatenation of pages, parsed request parameters, zoneinfo-based (pytz-independent) offsets, email.utils RFC-1123 rendering, round trip",
    "Exploration: 1 200 + 1 500 (quick) / 80 000 + 200 000 (thorough) generated pagings and instants: 1-6 pages with empty first/middle/last pages, documents with None / non-date / nested time-series fields in five zones around DST changes, plain and time-window queries with and without time series, count requests, invalid sites. Every session is yielded once in server order with exactly one request per page, parameters and credentials as given, next links followed verbatim, no request for an invalid site; every RFC-1123 field and time-series entry becomes an aware datetime of the same instant with the zone's offset and wall clock; formatting and parsing round-trips to the second.",
    "Trusted: the fake transport and parameter parsing in acnverif/props/c20.py; zone rules from the interpreter's tz database; filter strings without '&'.",
    "DESIGN.md 3/C20",
)


# ---- additions of the third and fourth seeded rounds (appended to the level texts above) ----
ROUND34 = {
    "C01": "Scenarios also contain EVSEs without upper limit (infinite pilots), pilots up to 1e-3 A off an allowable value, periods 0.125 and 2.05 min.",
    "C02": "In a third of the simulations the run is interrupted at a generated call, another scheduler object is installed with update_scheduler and the run continued (ledger and peak speak about the whole trajectory); battery initial charges 1e-4..1e-2 kWh below capacity; charging_rates_as_df / index_of_evse agree with the matrices.",
    "C03": "Initial charges a hair below capacity (head-room of the order of the 1e-3 kWh fully-charged tolerance) are part of the battery generator.",
    "C04": "Scripted pilots include values up to 1e-3 A off an allowable value (finite-rate EVSEs), infinite pilots on EVSEs without upper limit, and a family with an all-integer schedule for every station in period 0 reaching the last event followed by fractional schedules.",
    "C05": "A third of the histories hold explicit UnplugEvents ahead of a departure (the simulator's own unplug then finds the station empty or re-occupied and is an event of its period all the same).",
    "C06": "Every question is asked twice and in both orders (linear first / phase-aware first), optionally after a lenient what-if query of the same shape, and the InfrastructureInfo handed to the algorithm-side check must be unchanged; schedules also with entries of both signs (phase-aware statement only), whole-number rows handed to the interface as Python ints, columns that are permutations of each other.",
    "C07": "Constraint coefficients up to 2; a constructed family with an estimator bound of exactly 0 A (label estimator_bound_exactly_zero).",
    "C08": "Sub-check greedy_session_bounds: an adapter interface whose finite level lists omit the implied 0 A and sessions narrowed with max_rates - the largest listed level that fits, 0 A when none does.",
    "C09": "The event history is compared as the ORDERED list of (time, type, session): simultaneous events must be processed in the order of the uninterrupted run.",
    "C10": "Half of the scenarios have estimated departures before the real departure (several connected sessions past their estimate); for max_recompute None the shifted run must be asked in exactly the shifted periods, also with a playback scheduler keyed by call count.",
    "C11": "Queries (len / empty / last timestamp) are operations of the history - in half of the machines asked only where generated, so a query that repairs a cache cannot hide it; events may share a session; after a JSON round trip the original queue receives the same operations and must return the same events in the same order.",
    "C12": "Rule equally_named_then_remove (two constraints of one name, one removed); the Current object of an earlier add handed in again; unnamed constraints must be called _const_<position>.",
    "C13": "Infinite advertised maxima are fed back like every advertised value; pilots 1e6 / 1e12 / inf / NaN; allowable rates given as list, tuple, array, set, Series, generator or map.",
    "C15": "Documents carry pytz, zoneinfo or fixed-offset time zones, sessions spanning a DST change of their own zone with max_len within an hour of the true stay; integer sample matrices.",
    "C16": "Networks built through keyword / positional arguments and the deprecated CaltechACN alias, as ChargingNetwork or StochasticNetwork, EVSE voltage 208/240/120; a lenient what-if query asked first; two-period schedules (the same total spread evenly, then the judged allocation); one transformer oversized (1e6 / 1e9 / inf kW) with pods, sub-panels and the other transformer still judged.",
    "C17": "Vectors and simulation starts also pytz / zoneinfo / UTC aware, incl. a family from the evening before a US DST change to the Monday after; energy_cost / demand_charge with another bundled tariff than the simulation carries.",
    "C18": "Periods 0.125 and 2.05 min with datetimes judged against exact rational arithmetic (1 ms); a quarter of the scenarios are single-phase sites with mixed-sign constraints.",
    "C20": "Time series spanning months or out of time order; arbitrary float energy thresholds compared numerically; sub-check interleaved_generators (two generators of one client consumed nested or in turns against a transport serving pages by URL).",
}
for _pid, _add in ROUND34.items():
    if _pid in CHECKS:
        _t, _text, _note, _ref = CHECKS[_pid]
        CHECKS[_pid] = (_t, _text + " " + _add, _note, _ref)


# ---- additions of session 3 (seeded rounds 8 and later) ----
ROUND8 = {
    "C01": "A sixth of the scenarios use user-defined subclasses of PluginEvent / UnplugEvent / RecomputeEvent (same event_type and precedence as their base class).",
    "C06": "A half of the networks are judged after a trip through the library's own persistence (ChargingNetwork JSON, Simulator JSON, deepcopy).",
    "C08": "In greedy_session_bounds sessions on continuous stations also carry positive minimum rates (every session waits at its minimum and is raised, in priority order, to the largest feasible rate between minimum and bound).",
    "C09": "In half of the scenarios ONE run is in addition interrupted two to four times (in-process resumes and JSON checkpoints mixed, every checkpoint passing the loaded-state clauses).",
    "C10": "A third of the sorted schedulers carry a SimpleRampdown estimator (permutation and determinism relations; the shift relation is not claimed for it).",
    "C12": "Rule scribble_on_handed_out_table: the caller edits the DataFrame returned by constraints_as_df() in place; the network's rows must still equal the model.",
    "C16": "In a quarter of the frontier starts the caller has edited, in place, the table constraints_as_df() handed out before the search begins.",
    "C18": "Half of the completed simulations are analysed after being saved and loaded again (JSON string / path / buffer) or deep-copied.",
}
for _pid, _add in ROUND8.items():
    if _pid in CHECKS:
        _t, _text, _note, _ref = CHECKS[_pid]
        CHECKS[_pid] = (_t, _text + " " + _add, _note, _ref)


# ---- additions of session 4 (seeded rounds 9 and 10) ----
SIM_COMMON = ("Scenario layer (all simulation-level checks): a second site with the same station / session / constraint names and other equipment simulated in the same process (before the scenario, or from inside one of its scheduler calls); free-text station ids (digits only, case twins, blanks, the empty string); the interface inspected before run(); sessions added to the event queue while the run is in progress; runs stretched to hundreds / thousands of periods and a space with 12-25 stays in sequence; single-angle sites with a differential (mixed-sign) row; every run under a step bound (non-termination is a violation).")
ROUND910 = {
    "C01": SIM_COMMON + " Queue built from 3-5 single adds followed by a larger batch.",
    "C02": SIM_COMMON + " Family 'pilots a hair below zero' (-9e-4 .. -1e-6 A, accepted by every EVSE class) with ideal batteries.",
    "C03": SIM_COMMON + " One battery / EV / EVSE through up to 1 200 consecutive calls (pilot pattern repeated).",
    "C04": SIM_COMMON + " After a JSON checkpoint the restored stations must draw exactly what they drew in the uninterrupted run (applied, not only recorded pilots); malformed schedules whose odd row has length 1.",
    "C05": SIM_COMMON + " In a quarter of the cases the scheduler object has served a complete earlier run and is attached with update_scheduler().",
    "C06": "Single-angle sites (all stations on one angle, first row differential); long horizons whose only overload is the last period.",
    "C07": SIM_COMMON + " Mid-run limit changes are preceded by interface queries in the same period; a car drawing less than the lowest level of its finite-rate station (estimator bound below that level, uninterrupted charging).",
    "C08": "In uncontrolled_sim and sorted_sim the same algorithm object afterwards serves a second site with the same station ids and other equipment and is judged there; a limit changed mid-run after a look through the interface; a third of the single-invocation cases have (nearly) everybody past the estimated departure.",
    "C09": SIM_COMMON,
    "C10": "Sub-check far_shift: shifts of 100 003 / 131 077 / 250 001 periods; 'squeeze' family (full car park behind one feeder that cannot serve everybody's minimum, estimates right after arrival).",
    "C11": "Far-out adjacent time stamps (1e6 +- 1, 123456/7, 2^31, 2^31+1) as event times and query periods.",
    "C12": "A colliding add under warnings-as-errors is a rule of its own.",
    "C14": "T = n x T/n for n up to 50; one battery through up to 400 calls.",
    "C15": "Capacity fit for stays of up to 40 000 periods.",
    "C16": "Transformer ratings of 0 kW (also 0.0 / numpy zero) and below one car; a constraint re-entered (same expression, same or derated limit) through update_constraint after a first query; schedules creeping upwards by 8e-6 per period over 12 500 / 20 000 periods.",
    "C18": SIM_COMMON + " Re-analysis after one constraint of the simulation's network was given another limit or removed; sweeps of 6-10 simulations built, analysed and discarded; a car on site that is no session of the simulation.",
    "C19": "Station ids incl. the empty string; cars on site before the run (network.plugin by the caller, only departures queued); free spaces looked up before all stations are registered.",
}
for _pid, _add in ROUND910.items():
    if _pid in CHECKS:
        _t, _text, _note, _ref = CHECKS[_pid]
        CHECKS[_pid] = (_t, _text + " " + _add, _note, _ref)


# ---- additions of round 11 ----
ROUND11 = {
    "C02": "In a third of the ledger cases the caller has edited the exported result tables (charging_rates_as_df / pilot_signals_as_df) in place before the books are read.",
    "C04": "In a quarter of the cases the exported result tables have been edited in place before the pilot matrix is compared.",
    "C07": "Sub-check single_call: single scheduling calls through an interface whose finite level lists omit the implied 0 A, with caller-narrowed session bounds and a breaker smaller than the lowest level, judged by the safety clauses only.",
    "C17": "The interface sub-check also runs at 0.5-, 2.5- and 7.5-minute periods.",
}
for _pid, _add in ROUND11.items():
    if _pid in CHECKS:
        _t, _text, _note, _ref = CHECKS[_pid]
        CHECKS[_pid] = (_t, _text + " " + _add, _note, _ref)
