claim(
    "C11",
    "Hypothesis rule-based state machine vs. list model of pending events; exhaustive small-scope enumeration of op sequences",
    "Exploration: 600 (quick) / 60 000 (thorough) generated histories of up to 30 queue operations incl. JSON round trips, plus ALL op sequences up to length 4 (quick) / 5 (thorough) over 13 operations; every retrieval and every len/empty/last-timestamp answer is compared with a list model. No absence proof beyond the enumerated scope.",
    "Trusted: the list model and the type-rank table (unplug<plug-in<recompute) in acnverif/props/c11.py; integer timestamps; ties on (timestamp, type) may come out in any order.",
    "DESIGN.md 3/C11",
)
