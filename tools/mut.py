#!/venv/bin/python
"""Sensitivity tool: run a check against single-site mutants of acnportal in a scratch copy.

    tools/mut.py C11                 # all mutants listed in mutants/C11.json
    tools/mut.py C11 name1 name2     # selected mutants
    tools/mut.py C11 --patch f.diff  # a patch file (e.g. seeded/<id>/patch.diff)

A mutant entry: {"name", "file", "old", "new", ["count"], ["expect": "caught"|"equivalent"]}.
The scratch copy lives under /tmp/acnmut and is removed afterwards; /repo is never touched.
Results are appended to mutants/results/<ID>.json.
"""
import json
import os
import shutil
import subprocess
import sys
import tempfile
import time

VERIF = os.path.dirname(os.path.dirname(os.path.abspath(__file__)))
REPO = "/repo"


def scratch():
    base = "/tmp/acnmut"
    os.makedirs(base, exist_ok=True)
    d = tempfile.mkdtemp(dir=base)
    dst = os.path.join(d, "repo")
    shutil.copytree(REPO, dst, ignore=shutil.ignore_patterns(".git", "__pycache__", "*.pyc", "docs", "tutorials"))
    return d, dst


def run_check(pid, repo, out, tier="quick", seed="1"):
    env = dict(os.environ, ACNVERIF_REPO=repo, ACNVERIF_OUT=out, VERIF_SEED=seed)
    t0 = time.time()
    p = subprocess.run([os.path.join(VERIF, "check"), pid, "--tier", tier], env=env, capture_output=True, text=True)
    return p.returncode, p.stdout + p.stderr, time.time() - t0


def one(pid, m, tier, seed):
    d, repo = scratch()
    try:
        if "patch" in m:
            r = subprocess.run(["git", "apply", "--directory", repo, "--unsafe-paths", m["patch"]], capture_output=True, text=True, cwd="/")
            if r.returncode != 0:
                r = subprocess.run(["patch", "-p1", "-d", repo, "-i", m["patch"]], capture_output=True, text=True)
                if r.returncode != 0:
                    return {"name": m["name"], "result": "patch-failed", "detail": r.stdout + r.stderr}
        else:
            path = os.path.join(repo, m["file"])
            src = open(path).read()
            cnt = src.count(m["old"])
            if cnt != m.get("count", 1):
                return {"name": m["name"], "result": "bad-mutant", "detail": "old occurs %d times" % cnt}
            open(path, "w").write(src.replace(m["old"], m["new"]))
        rc, out, secs = run_check(pid, repo, d, tier, seed)
        clause = ""
        for line in out.splitlines():
            if line.startswith("--- violation"):
                clause = line
                break
        res = {0: "MISSED", 1: "caught", 2: "harness-error"}.get(rc, "rc=%d" % rc)
        return {"name": m["name"], "result": res, "secs": round(secs, 1), "clause": clause, "tail": out[-600:] if rc != 1 else ""}
    finally:
        shutil.rmtree(d, ignore_errors=True)


def main():
    args = sys.argv[1:]
    pid = args.pop(0)
    tier = "quick"
    seed = "1"
    if "--tier" in args:
        i = args.index("--tier")
        tier = args[i + 1]
        del args[i : i + 2]
    if "--seed" in args:
        i = args.index("--seed")
        seed = args[i + 1]
        del args[i : i + 2]
    if args and args[0] == "--patch":
        ms = [{"name": os.path.basename(os.path.dirname(os.path.abspath(a))) or a, "patch": os.path.abspath(a)} for a in args[1:]]
    else:
        ms = json.load(open(os.path.join(VERIF, "mutants", pid + ".json")))
        if args:
            ms = [m for m in ms if m["name"] in args]
    from concurrent.futures import ThreadPoolExecutor

    with ThreadPoolExecutor(max_workers=int(os.environ.get("MUT_JOBS", "4"))) as ex:
        results = list(ex.map(lambda m: one(pid, m, tier, seed), ms))
    for m, r in zip(ms, results):
        exp = m.get("expect", "caught")
        flag = "" if (r["result"] == "caught") == (exp == "caught") else "   <-- UNEXPECTED (expected %s)" % exp
        print("%-8s %-45s %-14s %6ss %s%s" % (pid, r["name"], r["result"], r.get("secs", "-"), r.get("clause", "")[:90], flag))
        if r["result"] not in ("caught",) and r.get("tail"):
            print("      " + r["tail"].replace("\n", "\n      ")[-400:])
        if r.get("detail"):
            print("      " + r["detail"])
    os.makedirs(os.path.join(VERIF, "mutants", "results"), exist_ok=True)
    outp = os.path.join(VERIF, "mutants", "results", pid + ".json")
    prev = {}
    if os.path.exists(outp):
        prev = {r["name"]: r for r in json.load(open(outp))}
    for r in results:
        r.pop("tail", None)
        r["tier"] = tier
        prev[r["name"]] = r
    json.dump(sorted(prev.values(), key=lambda r: r["name"]), open(outp, "w"), indent=1)


if __name__ == "__main__":
    main()
