#!/venv/bin/python
"""Re-run every filed seeded change (seeded/<ID>-<X>/patch.diff) against its property's quick check.

    tools/reseed.py [--seeds 1,2,3] [--ids C01,C07] [--variants O,P] [--jobs 8]

Each (change, seed) pair runs in its own scratch copy under /tmp/acnmut (removed afterwards);
/repo is never touched.  Prints one line per change with the result per seed and writes
seeded/RESULTS.json (change -> {seed: caught|MISSED|harness-error, clause}).
"""
import json
import os
import sys
from concurrent.futures import ThreadPoolExecutor

HERE = os.path.dirname(os.path.abspath(__file__))
sys.path.insert(0, HERE)
import mut  # noqa: E402

VERIF = os.path.dirname(HERE)


def arg(name, default):
    if name in sys.argv:
        return sys.argv[sys.argv.index(name) + 1]
    return default


def main():
    seeds = arg("--seeds", "1,2,3").split(",")
    ids = arg("--ids", "")
    ids = set(ids.split(",")) if ids else None
    variants = arg("--variants", "")
    variants = set(variants.split(",")) if variants else None
    jobs = int(arg("--jobs", "5"))
    todo = []
    for d in sorted(os.listdir(os.path.join(VERIF, "seeded"))):
        p = os.path.join(VERIF, "seeded", d, "patch.diff")
        if not os.path.exists(p):
            continue
        pid, x = d.split("-")
        mp = os.path.join(VERIF, "seeded", d, "meta.json")
        if os.path.exists(mp) and json.load(open(mp)).get("obsolete"):
            continue  # superseded by a later repair of /repo (see its meta.json)
        if ids and pid not in ids:
            continue
        if variants and x not in variants:
            continue
        for s in seeds:
            todo.append((d, pid, p, s))

    def run(t):
        d, pid, p, s = t
        r = mut.one(pid, {"name": d, "patch": p}, "quick", s)
        return d, s, r

    with ThreadPoolExecutor(max_workers=jobs) as ex:
        results = list(ex.map(run, todo))
    table = {}
    for d, s, r in results:
        table.setdefault(d, {})[s] = {"result": r["result"], "clause": r.get("clause", "")[:120], "secs": r.get("secs")}
    bad = 0
    for d in sorted(table):
        row = table[d]
        cells = " ".join("%s:%s" % (s, row[s]["result"]) for s in seeds)
        flag = "" if all(row[s]["result"] == "caught" for s in seeds) else "   <--"
        bad += bool(flag)
        print("%-8s %s%s" % (d, cells, flag))
    outp = os.path.join(VERIF, "seeded", "RESULTS.json")
    prev = json.load(open(outp)) if os.path.exists(outp) else {}
    for d, row in table.items():
        prev.setdefault(d, {}).update(row)
    json.dump(prev, open(outp, "w"), indent=1, sort_keys=True)
    print("%d changes, %d not caught at every seed" % (len(table), bad))
    return 0


if __name__ == "__main__":
    sys.exit(main())
