#!/venv/bin/python
"""Confirm a sub-agent's seeded defect and file it under seeded/.

    tools/seed.py C14 A [--no-suite]

Steps (all in the scratch worktree /tmp/wt/<ID>, never in /repo):
  clean -> demo must PASS -> apply patch -> existing suite must still be 386 passed ->
  demo must FAIL -> revert.  Then the property's check is run against the patch
  (tools/mut.py --patch) and seeded/<ID>-<X>/{patch.diff,demo.py,meta.json} is written.
"""
import json
import os
import re
import shutil
import subprocess
import sys

VERIF = os.path.dirname(os.path.dirname(os.path.abspath(__file__)))


def sh(cmd, cwd=None, timeout=1800):
    p = subprocess.run(cmd, shell=True, cwd=cwd, capture_output=True, text=True, timeout=timeout)
    return p.returncode, (p.stdout + p.stderr)


def main():
    pid, x = sys.argv[1], sys.argv[2]
    suite = "--no-suite" not in sys.argv
    wt = "/tmp/wt/%s" % pid
    out = "/tmp/wt-out/%s" % pid
    patch = "%s/patch_%s.diff" % (out, x)
    demo = "%s/demo_%s.py" % (out, x)
    meta = {"property": pid, "variant": x, "source": "independent sub-agent given only the property text and a scratch worktree"}
    sh("git checkout -- . && git clean -fdq", cwd=wt)
    rc0, o0 = sh("/venv/bin/python %s" % demo, cwd=wt)
    meta["demo_on_unchanged"] = "exit %d" % rc0
    rc, o = sh("git apply %s" % patch, cwd=wt)
    if rc != 0:
        print("patch does not apply:", o)
        return 1
    rc1, o1 = sh("/venv/bin/python %s" % demo, cwd=wt)
    meta["demo_with_change"] = "exit %d: %s" % (rc1, o1.strip().splitlines()[-1][:300] if o1.strip() else "")
    if suite:
        rcs, os_ = sh("/venv/bin/python -m pytest -q -p no:cacheprovider --timeout=900 --continue-on-collection-errors 2>&1 | tail -3", cwd=wt)
        m = re.search(r"(\d+) passed", os_)
        f = re.search(r"(\d+) failed", os_)
        meta["suite_with_change"] = os_.strip().splitlines()[-1][:200]
        suite_ok = bool(m) and int(m.group(1)) == 386 and not f
    else:
        suite_ok = None
        meta["suite_with_change"] = "not re-run"
    sh("git checkout -- . && git clean -fdq", cwd=wt)
    ok = rc0 == 0 and rc1 != 0 and suite_ok is not False
    print("demo unchanged rc=%d, demo changed rc=%d, suite: %s -> %s" % (rc0, rc1, meta["suite_with_change"], "CONFIRMED" if ok else "REJECTED"))
    if not ok:
        print(o0[-500:], o1[-500:])
        return 1
    d = os.path.join(VERIF, "seeded", "%s-%s" % (pid, x))
    os.makedirs(d, exist_ok=True)
    shutil.copy(patch, os.path.join(d, "patch.diff"))
    shutil.copy(demo, os.path.join(d, "demo.py"))
    # which of our checks see it
    rc, o = sh("%s/tools/mut.py %s --patch %s" % (VERIF, pid, os.path.join(d, "patch.diff")), timeout=3600)
    print(o)
    line = [l for l in o.splitlines() if l.startswith(pid)]
    meta["check_result_quick"] = line[0].split()[2] if line else "?"
    meta["check_clause"] = line[0][line[0].find("---"):].strip() if line and "---" in line[0] else ""
    meta["what_it_needs"] = ""
    meta["ran"] = [
        "git -C /tmp/wt/%s apply patch.diff; /venv/bin/python demo.py (must fail); pytest suite (386 passed); git checkout -- .; demo.py (must pass)" % pid,
        "tools/mut.py %s --patch seeded/%s-%s/patch.diff (scratch copy of /repo + patch, ./check %s --tier quick)" % (pid, pid, x, pid),
    ]
    notes = os.path.join(out, {"C": "NOTES2.md", "D": "NOTES2.md", "E": "NOTES3.md", "F": "NOTES3.md", "G": "NOTES4.md", "H": "NOTES4.md", "I": "NOTES5.md", "J": "NOTES5.md", "K": "NOTES6.md", "L": "NOTES6.md", "M": "NOTES7.md", "N": "NOTES7.md", "O": "NOTES8.md", "P": "NOTES8.md", "Q": "NOTES9.md", "R": "NOTES9.md", "S": "NOTES10.md", "T": "NOTES10.md", "U": "NOTES11.md", "V": "NOTES11.md"}.get(x, "NOTES.md"))
    if os.path.exists(notes):
        shutil.copy(notes, os.path.join(d, "AGENT_NOTES.md"))
    meta["round"] = {"A": 1, "B": 1}.get(x, (ord(x) - ord("A")) // 2 + 1)
    json.dump(meta, open(os.path.join(d, "meta.json"), "w"), indent=1)
    return 0


if __name__ == "__main__":
    sys.exit(main())
