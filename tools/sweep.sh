#!/bin/sh
# tools/sweep.sh <first-seed> <last-seed> [tier] [jobs]
# Runs every property's check at each seed; prints one line per (property, seed) that did not exit 0.
# Intended for `vp run` (snapshot of committed /verif); evidence written there is not committed.
first=$1; last=$2; tier=${3:-quick}; jobs=${4:-3}
mkdir -p sweep-logs
for s in $(seq $first $last); do
  for i in 01 02 03 04 05 06 07 08 09 10 11 12 13 14 15 16 17 18 19 20; do echo "$s C$i"; done
done | xargs -P $jobs -L 1 sh -c 'VERIF_SEED=$0 ./check $1 --tier '$tier' > sweep-logs/$1.s$0.log 2>&1; rc=$?; if [ $rc -ne 0 ]; then echo "NONZERO seed=$0 $1 exit=$rc"; grep -h -m3 -E "VIOLATION|violation in|harness|floor" sweep-logs/$1.s$0.log; else rm -f sweep-logs/$1.s$0.log; fi'
echo "sweep $first..$last tier=$tier done"
