#!/opt/veriftools/pyvenv/bin/python
"""Validate MANIFEST.json and evidence/*.json against the harness schemas (tooling venv)."""
import glob
import json
import os
import sys

import jsonschema

VERIF = os.path.dirname(os.path.dirname(os.path.abspath(__file__)))
ok = True
m = json.load(open(os.path.join(VERIF, "MANIFEST.json")))
jsonschema.validate(m, json.load(open("/root/.vp/MANIFEST.schema.json")))
es = json.load(open("/root/.vp/EVIDENCE.schema.json"))
claimed = {c["property_id"] for c in m["checks"]}
na = {c["property_id"] for c in m.get("not_applicable", [])}
allp = {json.loads(l)["id"] for l in open(os.path.join(VERIF, "properties.jsonl"))}
if claimed | na != allp or claimed & na:
    print("claimed/not_applicable do not partition the properties", sorted(allp - claimed - na), sorted(claimed & na))
    ok = False
for pid in sorted(claimed):
    p = os.path.join(VERIF, "evidence", pid + ".json")
    if not os.path.exists(p):
        print("missing evidence", pid)
        ok = False
        continue
    try:
        jsonschema.validate(json.load(open(p)), es)
    except jsonschema.ValidationError as e:
        print("invalid evidence", pid, e.message)
        ok = False
print("valid" if ok else "INVALID", "claims:", len(claimed))
sys.exit(0 if ok else 1)
